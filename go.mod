module verif

go 1.20

replace github.com/pion/stun/v3 => /repo

require (
	github.com/pion/stun/v3 v3.0.0-00010101000000-000000000000
	github.com/pion/transport/v3 v3.0.7
)

require (
	github.com/pion/dtls/v3 v3.0.6 // indirect
	github.com/pion/logging v0.2.3 // indirect
	github.com/wlynxg/anet v0.0.3 // indirect
	golang.org/x/crypto v0.32.0 // indirect
	golang.org/x/sys v0.29.0 // indirect
)
