// Package peek renders the complete (private) state of a Go value as a
// canonical string: maps sorted, pointers numbered by first visit, time.Time
// as its instant, funcs and channels opaque. It walks with reflect+unsafe and
// never names a field, so a refactor of the library does not break it. The
// explicit-state searches use it as (part of) their deduplication key.
package peek

import (
	"fmt"
	"reflect"
	"sort"
	"strings"
	"time"
	"unsafe"
)

type dumper struct {
	sb   strings.Builder
	ptrs map[unsafe.Pointer]int
}

// Dump returns the canonical rendering of v.
func Dump(v interface{}) string {
	d := &dumper{ptrs: map[unsafe.Pointer]int{}}
	d.walk(reflect.ValueOf(v), 0)
	return d.sb.String()
}

var timeType = reflect.TypeOf(time.Time{})

func access(v reflect.Value) reflect.Value {
	if v.CanInterface() || !v.CanAddr() {
		return v
	}
	return reflect.NewAt(v.Type(), unsafe.Pointer(v.UnsafeAddr())).Elem()
}

func (d *dumper) walk(v reflect.Value, depth int) {
	if depth > 40 {
		d.sb.WriteString("<deep>")
		return
	}
	if !v.IsValid() {
		d.sb.WriteString("nil")
		return
	}
	switch v.Kind() {
	case reflect.Bool:
		fmt.Fprintf(&d.sb, "%v", v.Bool())
	case reflect.Int, reflect.Int8, reflect.Int16, reflect.Int32, reflect.Int64:
		fmt.Fprintf(&d.sb, "%d", v.Int())
	case reflect.Uint, reflect.Uint8, reflect.Uint16, reflect.Uint32, reflect.Uint64, reflect.Uintptr:
		fmt.Fprintf(&d.sb, "%d", v.Uint())
	case reflect.Float32, reflect.Float64:
		fmt.Fprintf(&d.sb, "%g", v.Float())
	case reflect.String:
		fmt.Fprintf(&d.sb, "%q", v.String())
	case reflect.Func:
		if v.IsNil() {
			d.sb.WriteString("func:nil")
		} else {
			d.sb.WriteString("func")
		}
	case reflect.Chan:
		if v.IsNil() {
			d.sb.WriteString("chan:nil")
		} else {
			fmt.Fprintf(&d.sb, "chan(len=%d)", v.Len())
		}
	case reflect.UnsafePointer:
		d.sb.WriteString("uptr")
	case reflect.Interface:
		if v.IsNil() {
			d.sb.WriteString("iface:nil")
			return
		}
		e := v.Elem()
		d.sb.WriteString("iface(" + e.Type().String() + "):")
		d.walk(e, depth+1)
	case reflect.Ptr:
		if v.IsNil() {
			d.sb.WriteString("ptr:nil")
			return
		}
		p := unsafe.Pointer(v.Pointer())
		if n, ok := d.ptrs[p]; ok {
			fmt.Fprintf(&d.sb, "&%d", n)
			return
		}
		n := len(d.ptrs)
		d.ptrs[p] = n
		fmt.Fprintf(&d.sb, "&%d=", n)
		d.walk(v.Elem(), depth+1)
	case reflect.Struct:
		if v.Type() == timeType {
			av := access(v)
			if av.CanInterface() {
				t := av.Interface().(time.Time)
				if t.IsZero() {
					d.sb.WriteString("time:zero")
				} else {
					fmt.Fprintf(&d.sb, "time:%d", t.UnixNano())
				}
				return
			}
		}
		d.sb.WriteString(v.Type().Name() + "{")
		if !v.CanAddr() {
			// make it addressable so unexported fields can be read
			c := reflect.New(v.Type()).Elem()
			c.Set(v)
			v = c
		}
		for i := 0; i < v.NumField(); i++ {
			f := v.Type().Field(i)
			// the real primitives embedded in the shims carry runtime state (sema addresses) that is not model state
			if f.Name == "real" || f.Name == "noCopy" {
				continue
			}
			d.sb.WriteString(f.Name + ":")
			d.walk(access(v.Field(i)), depth+1)
			d.sb.WriteString(",")
		}
		d.sb.WriteString("}")
	case reflect.Array:
		if v.Type().Elem().Kind() == reflect.Uint8 {
			b := make([]byte, v.Len())
			for i := range b {
				b[i] = byte(v.Index(i).Uint())
			}
			fmt.Fprintf(&d.sb, "%x", b)
			return
		}
		d.sb.WriteString("[")
		for i := 0; i < v.Len(); i++ {
			d.walk(access(v.Index(i)), depth+1)
			d.sb.WriteString(",")
		}
		d.sb.WriteString("]")
	case reflect.Slice:
		if v.IsNil() {
			d.sb.WriteString("slice:nil")
			return
		}
		if v.Type().Elem().Kind() == reflect.Uint8 {
			b := make([]byte, v.Len())
			for i := range b {
				b[i] = byte(v.Index(i).Uint())
			}
			fmt.Fprintf(&d.sb, "%x", b)
			return
		}
		d.sb.WriteString("[")
		for i := 0; i < v.Len(); i++ {
			d.walk(access(v.Index(i)), depth+1)
			d.sb.WriteString(",")
		}
		d.sb.WriteString("]")
	case reflect.Map:
		if v.IsNil() {
			d.sb.WriteString("map:nil")
			return
		}
		type kv struct{ k, v string }
		var items []kv
		it := v.MapRange()
		for it.Next() {
			kd := &dumper{ptrs: d.ptrs}
			kd.walk(it.Key(), depth+1)
			vd := &dumper{ptrs: d.ptrs}
			vd.walk(it.Value(), depth+1)
			items = append(items, kv{kd.sb.String(), vd.sb.String()})
		}
		sort.Slice(items, func(i, j int) bool { return items[i].k < items[j].k })
		d.sb.WriteString("map{")
		for _, x := range items {
			d.sb.WriteString(x.k + ":" + x.v + ",")
		}
		d.sb.WriteString("}")
	default:
		d.sb.WriteString("?" + v.Kind().String())
	}
}
