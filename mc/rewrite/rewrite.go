// Package rewrite builds the `go build -overlay` file that binds the
// verification machinery to the current working tree of /repo without touching
// it: virtual packages github.com/pion/stun/v3/zzverif/... backed by files in
// /verif/mc/_shim, and (in sched mode) rewritten copies of every library file
// that imports sync, sync/atomic or runtime, contains a go statement or ranges
// over a map.
package rewrite

import (
	"encoding/json"
	"fmt"
	"go/ast"
	"go/parser"
	"go/token"
	"go/types"
	"os"
	"path/filepath"
	"sort"
	"strings"
)

const modPath = "github.com/pion/stun/v3"

// Options for Build.
type Options struct {
	Repo     string            // /repo
	ShimDir  string            // /verif/mc/_shim
	OutDir   string            // where rewritten files and overlay.json go
	Sched    bool              // rewrite sync/atomic/runtime/go/map-range
	Extra    map[string]string // additional overlay entries (target path -> source file), e.g. mutants
	Packages []string          // package dirs relative to Repo; default {".", "internal/hmac"}
}

// Report says what was rewritten.
type Report struct {
	Files     []string
	GoStmts   int
	MapRanges int
	Imports   int
	Warnings  []string
}

type edit struct {
	start, end int
	text       string
}

type stubImporter struct{ pkgs map[string]*types.Package }

func (s *stubImporter) Import(path string) (*types.Package, error) {
	if p, ok := s.pkgs[path]; ok {
		return p, nil
	}
	name := path[strings.LastIndex(path, "/")+1:]
	if name == "v3" {
		parts := strings.Split(path, "/")
		name = parts[len(parts)-2]
	}
	p := types.NewPackage(path, name)
	p.MarkComplete()
	s.pkgs[path] = p
	return p, nil
}

// Build writes OutDir/overlay.json and returns its path.
func Build(o Options) (string, *Report, error) {
	rep := &Report{}
	if len(o.Packages) == 0 {
		o.Packages = []string{".", "internal/hmac"}
	}
	if err := os.MkdirAll(filepath.Join(o.OutDir, "src"), 0o755); err != nil {
		return "", nil, err
	}
	replace := map[string]string{}
	// virtual packages
	shims, err := os.ReadDir(o.ShimDir)
	if err != nil {
		return "", nil, err
	}
	for _, d := range shims {
		if !d.IsDir() {
			continue
		}
		files, _ := os.ReadDir(filepath.Join(o.ShimDir, d.Name()))
		for _, f := range files {
			if strings.HasSuffix(f.Name(), ".go") {
				replace[filepath.Join(o.Repo, "zzverif", d.Name(), f.Name())] = filepath.Join(o.ShimDir, d.Name(), f.Name())
			}
		}
	}
	for k, v := range o.Extra {
		replace[k] = v
	}
	if o.Sched {
		for _, pkg := range o.Packages {
			dir := filepath.Join(o.Repo, pkg)
			if err := rewritePackage(dir, o, replace, rep); err != nil {
				return "", nil, err
			}
		}
		// A library that calls TryLock / TryRLock can observe a mutex while another thread is inside its critical
		// section. Acquisitions are the only scheduling points of the model, so such a moment is never a state the
		// scheduler stops in - unless the code uses a Try method, in which case every successful acquisition is
		// followed by a second point ("holding the lock"). Decided here, at build time, so that all executions of
		// one worker have the same shape.
		if usesTryLock(o) {
			gen := filepath.Join(o.OutDir, "src", "vsync_holdpoints.go")
			if err := os.WriteFile(gen, []byte("package vsync\n\nfunc init() { HoldPoints = true }\n"), 0o644); err != nil {
				return "", nil, err
			}
			replace[filepath.Join(o.Repo, "zzverif", "vsync", "zz_holdpoints.go")] = gen
		}
	}
	b, _ := json.MarshalIndent(map[string]interface{}{"Replace": replace}, "", " ")
	path := filepath.Join(o.OutDir, "overlay.json")
	if err := os.WriteFile(path, b, 0o644); err != nil {
		return "", nil, err
	}
	return path, rep, nil
}

// usesTryLock reports whether any non-test source file of the packages calls a Try method of a mutex.
func usesTryLock(o Options) bool {
	for _, pkg := range o.Packages {
		files, _ := os.ReadDir(filepath.Join(o.Repo, pkg))
		for _, f := range files {
			if f.IsDir() || !strings.HasSuffix(f.Name(), ".go") || strings.HasSuffix(f.Name(), "_test.go") {
				continue
			}
			b, err := os.ReadFile(filepath.Join(o.Repo, pkg, f.Name()))
			if err != nil {
				continue
			}
			if strings.Contains(string(b), ".TryLock(") || strings.Contains(string(b), ".TryRLock(") {
				return true
			}
		}
	}
	return false
}

func rewritePackage(dir string, o Options, replace map[string]string, rep *Report) error {
	ents, err := os.ReadDir(dir)
	if err != nil {
		return err
	}
	fset := token.NewFileSet()
	var files []*ast.File
	var names []string
	srcs := map[string][]byte{}
	for _, e := range ents {
		n := e.Name()
		if e.IsDir() || !strings.HasSuffix(n, ".go") || strings.HasSuffix(n, "_test.go") {
			continue
		}
		p := filepath.Join(dir, n)
		src := p
		if alt, ok := o.Extra[p]; ok { // a mutant replaces this file: rewrite the mutant
			src = alt
		}
		b, err := os.ReadFile(src)
		if err != nil {
			return err
		}
		f, err := parser.ParseFile(fset, p, b, parser.ParseComments)
		if err != nil {
			return fmt.Errorf("parse %s: %w", src, err)
		}
		files = append(files, f)
		names = append(names, p)
		srcs[p] = b
	}
	info := &types.Info{Types: map[ast.Expr]types.TypeAndValue{}}
	conf := types.Config{Importer: &stubImporter{pkgs: map[string]*types.Package{}}, Error: func(error) {}}
	_, _ = conf.Check("p", fset, files, info) // tolerant: errors ignored, local map types still resolve
	for i, f := range files {
		p := names[i]
		src := srcs[p]
		var edits []edit
		needSched := false
		off := func(pos token.Pos) int { return fset.Position(pos).Offset }
		for _, im := range f.Imports {
			path := strings.Trim(im.Path.Value, "\"")
			var shim, def string
			switch path {
			case "sync":
				shim, def = "vsync", "sync"
			case "sync/atomic":
				shim, def = "vatomic", "atomic"
			case "runtime":
				shim, def = "vruntime", "runtime"
			default:
				continue
			}
			name := def
			start := off(im.Path.Pos())
			if im.Name != nil {
				name = im.Name.Name
				start = off(im.Name.Pos())
			}
			edits = append(edits, edit{start, off(im.Path.End()), fmt.Sprintf("%s %q", name, modPath+"/zzverif/"+shim)})
			rep.Imports++
		}
		seq := 0
		ast.Inspect(f, func(n ast.Node) bool {
			switch s := n.(type) {
			case *ast.GoStmt:
				needSched = true
				rep.GoStmts++
				if fl, ok := s.Call.Fun.(*ast.FuncLit); ok && len(s.Call.Args) == 0 {
					edits = append(edits, edit{off(s.Pos()), off(fl.Pos()), "zzvsched.Go("})
					edits = append(edits, edit{off(fl.End()), off(s.End()), ")"})
				} else {
					for _, a := range s.Call.Args {
						switch a.(type) {
						case *ast.Ident, *ast.BasicLit:
						default:
							rep.Warnings = append(rep.Warnings, fmt.Sprintf("%s: go statement argument evaluated late", fset.Position(s.Pos())))
						}
					}
					edits = append(edits, edit{off(s.Pos()), off(s.Call.Pos()), "zzvsched.Go(func() { "})
					edits = append(edits, edit{off(s.End()), off(s.End()), " })"})
				}
			case *ast.RangeStmt:
				tv, ok := info.Types[s.X]
				if !ok || tv.Type == nil {
					return true
				}
				if _, isMap := tv.Type.Underlying().(*types.Map); !isMap {
					return true
				}
				switch s.X.(type) {
				case *ast.Ident, *ast.SelectorExpr:
				default:
					rep.Warnings = append(rep.Warnings, fmt.Sprintf("%s: range over map expression not rewritten", fset.Position(s.Pos())))
					return true
				}
				needSched = true
				rep.MapRanges++
				seq++
				x := string(src[off(s.X.Pos()):off(s.X.End())])
				k := fmt.Sprintf("zzk%d", seq)
				v := fmt.Sprintf("zzv%d", seq)
				okv := fmt.Sprintf("zzok%d", seq)
				blank := func(e ast.Expr) bool {
					if e == nil {
						return true
					}
					id, ok := e.(*ast.Ident)
					return ok && id.Name == "_"
				}
				tok := ":="
				if s.Tok == token.ASSIGN {
					tok = "="
				}
				txt := func(e ast.Expr) string { return string(src[off(e.Pos()):off(e.End())]) }
				var body string
				switch {
				case blank(s.Key) && blank(s.Value):
					body = fmt.Sprintf("if _, %s := %s[%s]; !%s { continue };", okv, x, k, okv)
				case blank(s.Value):
					body = fmt.Sprintf("if _, %s := %s[%s]; !%s { continue }; %s %s %s;", okv, x, k, okv, txt(s.Key), tok, k)
				case blank(s.Key):
					body = fmt.Sprintf("%s, %s := %s[%s]; if !%s { continue }; %s %s %s;", v, okv, x, k, okv, txt(s.Value), tok, v)
				default:
					body = fmt.Sprintf("%s, %s := %s[%s]; if !%s { continue }; %s, %s %s %s, %s;", v, okv, x, k, okv, txt(s.Key), txt(s.Value), tok, k, v)
				}
				hdr := fmt.Sprintf("for _, %s := range zzvsched.MapKeys(%s) { %s", k, x, body)
				edits = append(edits, edit{off(s.Pos()), off(s.Body.Lbrace) + 1, hdr})
			}
			return true
		})
		if len(edits) == 0 {
			continue
		}
		if needSched {
			e := off(f.Name.End())
			edits = append(edits, edit{e, e, fmt.Sprintf("; import zzvsched %q", modPath+"/zzverif/sched")})
		}
		sort.Slice(edits, func(a, b int) bool { return edits[a].start > edits[b].start })
		out := append([]byte(nil), src...)
		for _, e := range edits {
			out = append(out[:e.start], append([]byte(e.text), out[e.end:]...)...)
		}
		rel, _ := filepath.Rel(o.Repo, p)
		dst := filepath.Join(o.OutDir, "src", strings.ReplaceAll(rel, "/", "__"))
		if err := os.WriteFile(dst, out, 0o644); err != nil {
			return err
		}
		replace[p] = dst
		rep.Files = append(rep.Files, rel)
	}
	return nil
}
