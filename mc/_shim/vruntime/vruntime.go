// Package vruntime replaces package runtime in the rewritten library.
// SetFinalizer is a no-op: a finalizer goroutine calling Close outside the
// scheduler would be uncontrolled nondeterminism.
package vruntime

import (
	"runtime"

	"github.com/pion/stun/v3/zzverif/sched"
)

func SetFinalizer(obj interface{}, finalizer interface{}) {}
func KeepAlive(x interface{})                             { runtime.KeepAlive(x) }
func GC()                                                 {}
func NumGoroutine() int                                   { return runtime.NumGoroutine() }
func NumCPU() int                                         { return runtime.NumCPU() }
func GOMAXPROCS(n int) int                                { return runtime.GOMAXPROCS(n) }
func Gosched() {
	if sched.Active() {
		sched.Yield("runtime.Gosched")
		return
	}
	runtime.Gosched()
}
func Caller(skip int) (uintptr, string, int, bool) { return runtime.Caller(skip + 1) }
func Stack(buf []byte, all bool) int               { return runtime.Stack(buf, all) }
