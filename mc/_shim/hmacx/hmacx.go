// Package hmacx re-exports the stun module's internal/hmac package so the
// verification harness (another module) can reach it.
package hmacx

import (
	"hash"

	"github.com/pion/stun/v3/internal/hmac"
)

func AcquireSHA1(key []byte) hash.Hash             { return hmac.AcquireSHA1(key) }
func PutSHA1(h hash.Hash)                          { hmac.PutSHA1(h) }
func AcquireSHA256(key []byte) hash.Hash           { return hmac.AcquireSHA256(key) }
func PutSHA256(h hash.Hash)                        { hmac.PutSHA256(h) }
func New(h func() hash.Hash, key []byte) hash.Hash { return hmac.New(h, key) }
func Equal(a, b []byte) bool                       { return hmac.Equal(a, b) }
