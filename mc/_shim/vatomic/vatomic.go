// Package vatomic replaces sync/atomic in the rewritten library: every
// operation is a scheduling point followed by the real atomic operation.
package vatomic

import (
	"sync/atomic"
	"unsafe"

	"github.com/pion/stun/v3/zzverif/sched"
)

func pt(l string) { sched.Point(l, nil) }

func AddInt32(addr *int32, delta int32) int32 { pt("atomic.Add"); return atomic.AddInt32(addr, delta) }
func LoadInt32(addr *int32) int32             { pt("atomic.Load"); return atomic.LoadInt32(addr) }
func StoreInt32(addr *int32, v int32)         { pt("atomic.Store"); atomic.StoreInt32(addr, v) }
func SwapInt32(addr *int32, v int32) int32    { pt("atomic.Swap"); return atomic.SwapInt32(addr, v) }
func CompareAndSwapInt32(addr *int32, o, n int32) bool {
	pt("atomic.CAS")
	return atomic.CompareAndSwapInt32(addr, o, n)
}

type Int32 struct{ v atomic.Int32 }

func (x *Int32) Load() int32                    { pt("atomic.Load"); return x.v.Load() }
func (x *Int32) Store(v int32)                  { pt("atomic.Store"); x.v.Store(v) }
func (x *Int32) Add(d int32) int32              { pt("atomic.Add"); return x.v.Add(d) }
func (x *Int32) Swap(v int32) int32             { pt("atomic.Swap"); return x.v.Swap(v) }
func (x *Int32) CompareAndSwap(o, n int32) bool { pt("atomic.CAS"); return x.v.CompareAndSwap(o, n) }

func AddInt64(addr *int64, delta int64) int64 { pt("atomic.Add"); return atomic.AddInt64(addr, delta) }
func LoadInt64(addr *int64) int64             { pt("atomic.Load"); return atomic.LoadInt64(addr) }
func StoreInt64(addr *int64, v int64)         { pt("atomic.Store"); atomic.StoreInt64(addr, v) }
func SwapInt64(addr *int64, v int64) int64    { pt("atomic.Swap"); return atomic.SwapInt64(addr, v) }
func CompareAndSwapInt64(addr *int64, o, n int64) bool {
	pt("atomic.CAS")
	return atomic.CompareAndSwapInt64(addr, o, n)
}

type Int64 struct{ v atomic.Int64 }

func (x *Int64) Load() int64                    { pt("atomic.Load"); return x.v.Load() }
func (x *Int64) Store(v int64)                  { pt("atomic.Store"); x.v.Store(v) }
func (x *Int64) Add(d int64) int64              { pt("atomic.Add"); return x.v.Add(d) }
func (x *Int64) Swap(v int64) int64             { pt("atomic.Swap"); return x.v.Swap(v) }
func (x *Int64) CompareAndSwap(o, n int64) bool { pt("atomic.CAS"); return x.v.CompareAndSwap(o, n) }

func AddUint32(addr *uint32, delta uint32) uint32 {
	pt("atomic.Add")
	return atomic.AddUint32(addr, delta)
}
func LoadUint32(addr *uint32) uint32           { pt("atomic.Load"); return atomic.LoadUint32(addr) }
func StoreUint32(addr *uint32, v uint32)       { pt("atomic.Store"); atomic.StoreUint32(addr, v) }
func SwapUint32(addr *uint32, v uint32) uint32 { pt("atomic.Swap"); return atomic.SwapUint32(addr, v) }
func CompareAndSwapUint32(addr *uint32, o, n uint32) bool {
	pt("atomic.CAS")
	return atomic.CompareAndSwapUint32(addr, o, n)
}

type Uint32 struct{ v atomic.Uint32 }

func (x *Uint32) Load() uint32                    { pt("atomic.Load"); return x.v.Load() }
func (x *Uint32) Store(v uint32)                  { pt("atomic.Store"); x.v.Store(v) }
func (x *Uint32) Add(d uint32) uint32             { pt("atomic.Add"); return x.v.Add(d) }
func (x *Uint32) Swap(v uint32) uint32            { pt("atomic.Swap"); return x.v.Swap(v) }
func (x *Uint32) CompareAndSwap(o, n uint32) bool { pt("atomic.CAS"); return x.v.CompareAndSwap(o, n) }

func AddUint64(addr *uint64, delta uint64) uint64 {
	pt("atomic.Add")
	return atomic.AddUint64(addr, delta)
}
func LoadUint64(addr *uint64) uint64           { pt("atomic.Load"); return atomic.LoadUint64(addr) }
func StoreUint64(addr *uint64, v uint64)       { pt("atomic.Store"); atomic.StoreUint64(addr, v) }
func SwapUint64(addr *uint64, v uint64) uint64 { pt("atomic.Swap"); return atomic.SwapUint64(addr, v) }
func CompareAndSwapUint64(addr *uint64, o, n uint64) bool {
	pt("atomic.CAS")
	return atomic.CompareAndSwapUint64(addr, o, n)
}

type Uint64 struct{ v atomic.Uint64 }

func (x *Uint64) Load() uint64                    { pt("atomic.Load"); return x.v.Load() }
func (x *Uint64) Store(v uint64)                  { pt("atomic.Store"); x.v.Store(v) }
func (x *Uint64) Add(d uint64) uint64             { pt("atomic.Add"); return x.v.Add(d) }
func (x *Uint64) Swap(v uint64) uint64            { pt("atomic.Swap"); return x.v.Swap(v) }
func (x *Uint64) CompareAndSwap(o, n uint64) bool { pt("atomic.CAS"); return x.v.CompareAndSwap(o, n) }

func AddUintptr(addr *uintptr, delta uintptr) uintptr {
	pt("atomic.Add")
	return atomic.AddUintptr(addr, delta)
}
func LoadUintptr(addr *uintptr) uintptr     { pt("atomic.Load"); return atomic.LoadUintptr(addr) }
func StoreUintptr(addr *uintptr, v uintptr) { pt("atomic.Store"); atomic.StoreUintptr(addr, v) }
func SwapUintptr(addr *uintptr, v uintptr) uintptr {
	pt("atomic.Swap")
	return atomic.SwapUintptr(addr, v)
}
func CompareAndSwapUintptr(addr *uintptr, o, n uintptr) bool {
	pt("atomic.CAS")
	return atomic.CompareAndSwapUintptr(addr, o, n)
}

func LoadPointer(addr *unsafe.Pointer) unsafe.Pointer {
	pt("atomic.Load")
	return atomic.LoadPointer(addr)
}
func StorePointer(addr *unsafe.Pointer, v unsafe.Pointer) {
	pt("atomic.Store")
	atomic.StorePointer(addr, v)
}
func SwapPointer(addr *unsafe.Pointer, v unsafe.Pointer) unsafe.Pointer {
	pt("atomic.Swap")
	return atomic.SwapPointer(addr, v)
}
func CompareAndSwapPointer(addr *unsafe.Pointer, o, n unsafe.Pointer) bool {
	pt("atomic.CAS")
	return atomic.CompareAndSwapPointer(addr, o, n)
}

type Bool struct{ v atomic.Bool }

func (x *Bool) Load() bool                    { pt("atomic.Load"); return x.v.Load() }
func (x *Bool) Store(v bool)                  { pt("atomic.Store"); x.v.Store(v) }
func (x *Bool) Swap(v bool) bool              { pt("atomic.Swap"); return x.v.Swap(v) }
func (x *Bool) CompareAndSwap(o, n bool) bool { pt("atomic.CAS"); return x.v.CompareAndSwap(o, n) }

type Value struct{ v atomic.Value }

func (x *Value) Load() interface{}              { pt("atomic.Load"); return x.v.Load() }
func (x *Value) Store(v interface{})            { pt("atomic.Store"); x.v.Store(v) }
func (x *Value) Swap(v interface{}) interface{} { pt("atomic.Swap"); return x.v.Swap(v) }
func (x *Value) CompareAndSwap(o, n interface{}) bool {
	pt("atomic.CAS")
	return x.v.CompareAndSwap(o, n)
}

type Pointer[T any] struct{ v atomic.Pointer[T] }

func (x *Pointer[T]) Load() *T     { pt("atomic.Load"); return x.v.Load() }
func (x *Pointer[T]) Store(v *T)   { pt("atomic.Store"); x.v.Store(v) }
func (x *Pointer[T]) Swap(v *T) *T { pt("atomic.Swap"); return x.v.Swap(v) }
func (x *Pointer[T]) CompareAndSwap(o, n *T) bool {
	pt("atomic.CAS")
	return x.v.CompareAndSwap(o, n)
}
