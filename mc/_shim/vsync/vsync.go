// Package vsync replaces package sync in the rewritten library. Outside a
// scheduler session every type passes through to the real primitive; inside a
// session blocking is modelled and acquire-type operations are scheduling
// points (release-type operations take effect atomically with the step that
// precedes them, which loses no behaviour of data-race-free code).
package vsync

import (
	"sync"

	"github.com/pion/stun/v3/zzverif/sched"
)

// Locker is sync.Locker.
type Locker = sync.Locker

// HoldPoints adds a scheduling point right after every successful acquisition, so that another thread can run
// while the lock is held. It is switched on (at build time, see mc/rewrite) only for a library that uses TryLock /
// TryRLock: without those nobody can observe a held lock except by blocking, which the acquisition points cover.
var HoldPoints bool

func held(label string) {
	if HoldPoints {
		sched.Point(label, nil)
	}
}

// Mutex models sync.Mutex.
type Mutex struct {
	real   sync.Mutex
	locked bool
}

// Lock acquires m.
func (m *Mutex) Lock() {
	if !sched.Active() {
		m.real.Lock()
		return
	}
	sched.Point("Mutex.Lock", func() bool { return !m.locked })
	m.locked = true
	held("Mutex.held")
}

// TryLock tries to acquire m.
func (m *Mutex) TryLock() bool {
	if !sched.Active() {
		return m.real.TryLock()
	}
	sched.Point("Mutex.TryLock", nil)
	if m.locked {
		return false
	}
	m.locked = true
	return true
}

// Unlock releases m.
func (m *Mutex) Unlock() {
	if !sched.Active() {
		m.real.Unlock()
		return
	}
	if !m.locked && !sched.Aborting() {
		panic("sync: unlock of unlocked mutex")
	}
	m.locked = false
}

// RWMutex models sync.RWMutex including writer preference (a pending writer
// blocks new readers), which is what makes recursive read locking deadlock.
type RWMutex struct {
	real          sync.RWMutex
	readers       int
	writer        bool
	writerPending int
}

// Lock acquires rw for writing.
func (rw *RWMutex) Lock() {
	if !sched.Active() {
		rw.real.Lock()
		return
	}
	sched.Point("RWMutex.Lock", func() bool { return !rw.writer })
	if rw.readers == 0 {
		rw.writer = true
		held("RWMutex.held")
		return
	}
	rw.writer = true // announced: excludes other writers and new readers
	rw.writerPending++
	sched.Point("RWMutex.Lock/drain", func() bool { return rw.readers == 0 })
	rw.writerPending--
	held("RWMutex.held")
}

// Unlock releases the write lock.
func (rw *RWMutex) Unlock() {
	if !sched.Active() {
		rw.real.Unlock()
		return
	}
	if !rw.writer && !sched.Aborting() {
		panic("sync: Unlock of unlocked RWMutex")
	}
	rw.writer = false
}

// RLock acquires rw for reading.
func (rw *RWMutex) RLock() {
	if !sched.Active() {
		rw.real.RLock()
		return
	}
	sched.Point("RWMutex.RLock", func() bool { return !rw.writer })
	rw.readers++
	held("RWMutex.rheld")
}

// RUnlock releases a read lock.
func (rw *RWMutex) RUnlock() {
	if !sched.Active() {
		rw.real.RUnlock()
		return
	}
	if rw.readers <= 0 && !sched.Aborting() {
		panic("sync: RUnlock of unlocked RWMutex")
	}
	rw.readers--
}

// TryLock tries to take the write lock.
func (rw *RWMutex) TryLock() bool {
	if !sched.Active() {
		return rw.real.TryLock()
	}
	sched.Point("RWMutex.TryLock", nil)
	if rw.writer || rw.readers > 0 {
		return false
	}
	rw.writer = true
	return true
}

// TryRLock tries to take a read lock.
func (rw *RWMutex) TryRLock() bool {
	if !sched.Active() {
		return rw.real.TryRLock()
	}
	sched.Point("RWMutex.TryRLock", nil)
	if rw.writer {
		return false
	}
	rw.readers++
	return true
}

// RLocker returns a Locker for the read side.
func (rw *RWMutex) RLocker() Locker { return (*rlocker)(rw) }

type rlocker RWMutex

func (r *rlocker) Lock()   { (*RWMutex)(r).RLock() }
func (r *rlocker) Unlock() { (*RWMutex)(r).RUnlock() }

// WaitGroup models sync.WaitGroup.
type WaitGroup struct {
	real sync.WaitGroup
	n    int
}

// Add adds delta to the counter.
func (wg *WaitGroup) Add(delta int) {
	if !sched.Active() {
		wg.real.Add(delta)
		return
	}
	wg.n += delta
	if wg.n < 0 && !sched.Aborting() {
		panic("sync: negative WaitGroup counter")
	}
}

// Done decrements the counter.
func (wg *WaitGroup) Done() { wg.Add(-1) }

// Wait blocks until the counter is zero.
func (wg *WaitGroup) Wait() {
	if !sched.Active() {
		wg.real.Wait()
		return
	}
	sched.Point("WaitGroup.Wait", func() bool { return wg.n <= 0 })
}

// Cond models sync.Cond (FIFO wake-up, no spurious wake-ups, as in Go).
type Cond struct {
	L       Locker
	real    *sync.Cond
	waiters []*condWaiter
}

type condWaiter struct{ signaled bool }

// NewCond returns a new Cond.
func NewCond(l Locker) *Cond { return &Cond{L: l, real: sync.NewCond(l)} }

// Wait atomically unlocks c.L and suspends the caller.
func (c *Cond) Wait() {
	if !sched.Active() {
		if c.real == nil {
			c.real = sync.NewCond(c.L)
		}
		c.real.Wait()
		return
	}
	w := &condWaiter{}
	c.waiters = append(c.waiters, w)
	c.L.Unlock()
	sched.Point("Cond.Wait", func() bool { return w.signaled })
	c.L.Lock()
}

// Signal wakes one waiter.
func (c *Cond) Signal() {
	if !sched.Active() {
		if c.real == nil {
			c.real = sync.NewCond(c.L)
		}
		c.real.Signal()
		return
	}
	if len(c.waiters) > 0 {
		c.waiters[0].signaled = true
		c.waiters = c.waiters[1:]
	}
}

// Broadcast wakes all waiters.
func (c *Cond) Broadcast() {
	if !sched.Active() {
		if c.real == nil {
			c.real = sync.NewCond(c.L)
		}
		c.real.Broadcast()
		return
	}
	for _, w := range c.waiters {
		w.signaled = true
	}
	c.waiters = nil
}

// Once models sync.Once.
type Once struct {
	real    sync.Once
	done    bool
	running bool
}

// Do calls f once.
func (o *Once) Do(f func()) {
	if !sched.Active() {
		o.real.Do(f)
		return
	}
	sched.Point("Once.Do", func() bool { return !o.running })
	if o.done {
		return
	}
	o.running = true
	defer func() { o.running = false; o.done = true }()
	f()
}

// Pool models sync.Pool as a deterministic LIFO stack that is emptied at the
// end of every scheduler session. With Config.PoolFanout, Get is an environment
// choice over every pooled object and a miss, which is strictly more
// adversarial than the runtime's per-P caches.
type Pool struct {
	New        func() interface{}
	real       sync.Pool
	stack      []interface{}
	registered bool
}

// DoublePuts counts Put calls of an object that was already pooled (in the
// current session). It is diagnostic context, reset by the harness.
var DoublePuts int

// Get takes an object from the pool.
func (p *Pool) Get() interface{} {
	if !sched.Active() {
		if x := p.real.Get(); x != nil {
			return x
		}
		if p.New != nil {
			return p.New()
		}
		return nil
	}
	sched.Point("Pool.Get", nil)
	n := len(p.stack)
	k := 0
	if sched.PoolFanout() {
		k = sched.Choose(n+1, "Pool.Get")
	}
	if k < n {
		i := n - 1 - k
		x := p.stack[i]
		p.stack = append(p.stack[:i], p.stack[i+1:]...)
		return x
	}
	if p.New != nil {
		return p.New()
	}
	return nil
}

// Put returns an object to the pool.
func (p *Pool) Put(x interface{}) {
	if x == nil {
		return
	}
	if !sched.Active() {
		p.real.Put(x)
		return
	}
	if !p.registered {
		p.registered = true
		sched.OnEnd(func() { p.stack = nil; p.registered = false })
	}
	for _, y := range p.stack {
		if y == x {
			DoublePuts++
			sched.Note("double Put of %T %p", x, x)
		}
	}
	p.stack = append(p.stack, x)
}

// Map is sync.Map (not used by the library today; passes through, each call a
// scheduling point).
type Map struct{ real sync.Map }

func (m *Map) Load(k interface{}) (interface{}, bool) {
	sched.Point("Map.Load", nil)
	return m.real.Load(k)
}
func (m *Map) Store(k, v interface{}) { sched.Point("Map.Store", nil); m.real.Store(k, v) }
func (m *Map) Delete(k interface{})   { sched.Point("Map.Delete", nil); m.real.Delete(k) }
func (m *Map) LoadOrStore(k, v interface{}) (interface{}, bool) {
	sched.Point("Map.LoadOrStore", nil)
	return m.real.LoadOrStore(k, v)
}
func (m *Map) LoadAndDelete(k interface{}) (interface{}, bool) {
	sched.Point("Map.LoadAndDelete", nil)
	return m.real.LoadAndDelete(k)
}
func (m *Map) Range(f func(k, v interface{}) bool) { sched.Point("Map.Range", nil); m.real.Range(f) }

// OnceFunc mirrors sync.OnceFunc.
func OnceFunc(f func()) func() {
	var o Once
	return func() { o.Do(f) }
}
