package sched

import (
	"fmt"
	"sort"
)

// MapKeys returns the keys of m in a canonical order (sorted by their %v
// rendering). Rewritten `for k, v := range m` statements iterate over this
// slice and re-look each key up, skipping keys deleted meanwhile - a behaviour
// the Go specification permits - so that map iteration order, which the
// runtime randomises, is owned by the harness. With Config.MapFanout and 2..4
// keys the order is an environment choice over all permutations.
func MapKeys[K comparable, V any](m map[K]V) []K {
	keys := make([]K, 0, len(m))
	for k := range m {
		keys = append(keys, k)
	}
	if len(keys) < 2 {
		return keys
	}
	strs := make(map[K]string, len(keys))
	for _, k := range keys {
		strs[k] = fmt.Sprintf("%v", k)
	}
	sort.Slice(keys, func(i, j int) bool { return strs[keys[i]] < strs[keys[j]] })
	if MapFanout() && len(keys) <= 4 {
		nperm := 1
		for i := 2; i <= len(keys); i++ {
			nperm *= i
		}
		p := Choose(nperm, "maprange")
		// decode p as a Lehmer code
		rest := append([]K(nil), keys...)
		out := make([]K, 0, len(keys))
		for n := len(keys); n > 0; n-- {
			nperm /= n
			i := p / nperm
			p %= nperm
			out = append(out, rest[i])
			rest = append(rest[:i], rest[i+1:]...)
		}
		return out
	}
	return keys
}
