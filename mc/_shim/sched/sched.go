// Package sched is the controlled cooperative scheduler used by the model
// checking harness. It lives (virtually, through `go build -overlay`) inside
// the stun module as github.com/pion/stun/v3/zzverif/sched so that both the
// rewritten library and the harness can import it.
//
// Exactly one managed goroutine ("thread") runs at any time. Every shim
// operation calls Point before it takes effect and parks; the controller
// (the goroutine that called Run) decides who continues. Blocking is modelled:
// a thread whose pending operation is not enabled is simply not schedulable.
package sched

import (
	"fmt"
	"os"
	"runtime/debug"
	"sort"
	"strings"
	"sync"
	"sync/atomic"
	"time"
)

// Kind of a recorded choice point.
const (
	KindThread = 0 // which thread runs next
	KindEnv    = 1 // an environment answer (pool object, fault, map order, ...)
)

// PointRec is one recorded choice point of an execution (only points with
// more than one alternative are recorded).
type PointRec struct {
	Kind           int
	N              int  // number of alternatives
	Chosen         int  // alternative taken
	RunningEnabled bool // (thread points) the running thread was still enabled => alternatives >0 are preemptions
	Label          string
}

// Status of a finished execution.
const (
	StatusDone      = "done"               // all non-daemon threads finished, nothing but spinners left
	StatusDeadlock  = "deadlock"           // some non-daemon thread unfinished and nothing enabled
	StatusLivelock  = "livelock"           // only spinning (yield) threads ran for too long
	StatusHorizon   = "horizon"            // step limit reached
	StatusPanic     = "panic"              // a managed thread panicked
	StatusDivergent = "divergent"          // replayed prefix did not fit the execution (harness error)
	StatusStuck     = "stuck"              // a managed thread did not come back from a step (it is blocked on something the scheduler does not control, a channel) and no other thread can move: a deadlock
	StatusStuckOpen = "stuck-inconclusive" // the same while another thread could still move (which might release it): the execution is abandoned without a verdict
)

// Result of one execution.
type Result struct {
	Status   string
	Trace    []PointRec
	Steps    int
	PanicVal string
	Blocked  []string // for deadlock: "thread: op" of every unfinished thread
	Notes    []string
}

// Config for one execution.
type Config struct {
	Prefix     []int // choices to replay; afterwards alternative 0 is taken
	MaxSteps   int   // horizon (default 20000)
	MaxSpin    int   // consecutive spinner-only steps tolerated while work remains (default 200)
	PoolFanout bool  // when true Pool.Get is an environment choice over pooled objects / miss
	MapFanout  bool  // when true range-over-map order is an environment choice
}

type opRec struct {
	label   string
	enabled func() bool
	yield   bool
	yieldFn func() bool // dynamic: evaluated when the scheduler looks
}

func (o *opRec) isYield() bool { return o.yield || (o.yieldFn != nil && o.yieldFn()) }

// Thread is a managed goroutine.
type Thread struct {
	ID      int
	Name    string
	Daemon  bool
	wake    chan struct{}
	pending *opRec
	done    bool
	started bool
	lost    bool // did not come back from a step (StatusStuck): its goroutine is abandoned
}

type session struct {
	cfg      Config
	threads  []*Thread
	running  *Thread
	ctl      chan struct{}
	pos      int
	trace    []PointRec
	aborting bool
	status   string
	panicVal string
	notes    []string
	steps    int
	cleanups []func()
}

var active *session

// StepCounter increases on every scheduling step (read by the stuck-step watchdog).
var StepCounter atomic.Int64

// StuckAfter is how long a single step (library code between two scheduling points: microseconds) may take before the
// thread is declared blocked outside the scheduler's control.
var StuckAfter = 20 * time.Second

// stepSeq is odd while a step is in progress; the watchdog offers the value on stuckCh when it has not changed for
// StuckAfter.
var (
	stepSeq      atomic.Int64
	stuckCh      = make(chan int64, 1)
	watchdogOnce sync.Once
)

func startWatchdog() {
	watchdogOnce.Do(func() {
		go func() {
			var last int64
			since := time.Now()
			for {
				time.Sleep(time.Second)
				cur := stepSeq.Load()
				if cur != last || cur&1 == 0 {
					last, since = cur, time.Now()
					continue
				}
				if time.Since(since) > StuckAfter {
					select {
					case stuckCh <- cur:
					default:
					}
					since = time.Now()
				}
			}
		}()
	})
}

type abortT struct{}

var abortSentinel = abortT{}

// Active reports whether a scheduler session is running.
func Active() bool { return active != nil }

// Aborting reports whether the current session is tearing down.
func Aborting() bool { s := active; return s != nil && s.aborting }

// PoolFanout reports whether Pool.Get should branch.
func PoolFanout() bool { s := active; return s != nil && s.cfg.PoolFanout }

// MapFanout reports whether map iteration order should branch.
func MapFanout() bool { s := active; return s != nil && s.cfg.MapFanout }

// OnEnd registers a function run when the current session ends (used by shims
// to reset global model state such as pools).
func OnEnd(f func()) {
	if s := active; s != nil {
		s.cleanups = append(s.cleanups, f)
	}
}

// Note records a diagnostic string in the result of the current execution.
func Note(format string, a ...interface{}) {
	if s := active; s != nil {
		s.notes = append(s.notes, fmt.Sprintf(format, a...))
	}
}

// CurrentID returns the id of the running thread (-1 outside a session).
func CurrentID() int {
	if s := active; s != nil && s.running != nil {
		return s.running.ID
	}
	return -1
}

// ThreadDone reports whether thread id has finished.
func ThreadDone(id int) bool {
	s := active
	if s == nil || id < 0 || id >= len(s.threads) {
		return false
	}
	return s.threads[id].done
}

// ThreadsByName returns ids of threads whose name has the prefix.
func ThreadsByName(prefix string) []int {
	s := active
	var out []int
	if s == nil {
		return out
	}
	for _, t := range s.threads {
		if strings.HasPrefix(t.Name, prefix) {
			out = append(out, t.ID)
		}
	}
	return out
}

// LiveDaemons returns the number of unfinished daemon threads.
func LiveDaemons() int {
	s := active
	n := 0
	if s == nil {
		return 0
	}
	for _, t := range s.threads {
		if t.Daemon && !t.done {
			n++
		}
	}
	return n
}

func (s *session) spawn(name string, daemon bool, f func()) *Thread {
	t := &Thread{ID: len(s.threads), Name: name, Daemon: daemon, wake: make(chan struct{}, 1)}
	t.pending = &opRec{label: "start"}
	s.threads = append(s.threads, t)
	go func() {
		<-t.wake
		defer func() {
			r := recover()
			if r != nil && !s.aborting {
				if _, ok := r.(abortT); !ok {
					s.status = StatusPanic
					s.panicVal = fmt.Sprintf("thread %s: %v\n%s", t.Name, r, trimStack(debug.Stack()))
				}
			}
			t.done = true
			t.pending = nil
			s.ctl <- struct{}{}
		}()
		if s.aborting {
			return
		}
		f()
	}()
	return t
}

func trimStack(b []byte) string {
	lines := strings.Split(string(b), "\n")
	var keep []string
	for _, l := range lines {
		if strings.Contains(l, "/zzverif/sched") || strings.Contains(l, "runtime/debug") || strings.Contains(l, "runtime/panic") {
			continue
		}
		keep = append(keep, l)
		if len(keep) > 40 {
			break
		}
	}
	return strings.Join(keep, "\n")
}

// Go starts f as a daemon thread (this is what rewritten `go` statements in
// the library call). Outside a session it is a plain go statement.
func Go(f func()) {
	s := active
	if s == nil {
		go f()
		return
	}
	if s.aborting {
		return
	}
	s.spawn(fmt.Sprintf("lib%d", len(s.threads)), true, f)
}

// Spawn starts f as a named non-daemon thread (harness threads).
func Spawn(name string, f func()) int {
	s := active
	if s == nil {
		panic("sched.Spawn outside session")
	}
	if s.aborting {
		return -1
	}
	return s.spawn(name, false, f).ID
}

// SpawnDaemon starts f as a named daemon thread (harness-owned background
// threads such as the tick thread).
func SpawnDaemon(name string, f func()) int {
	s := active
	if s == nil {
		panic("sched.SpawnDaemon outside session")
	}
	if s.aborting {
		return -1
	}
	return s.spawn(name, true, f).ID
}

// Point is a scheduling point: the calling (running) thread announces its next
// operation and parks until the controller lets it continue. enabled==nil
// means always enabled.
func Point(label string, enabled func() bool) { point(label, enabled, false) }

// Yield is a scheduling point for a spinning thread: it is only scheduled when
// no non-spinning thread is enabled.
func Yield(label string) { point(label, nil, true) }

// YieldUntil is like Yield, but with an enabling condition.
func YieldUntil(label string, enabled func() bool) { point(label, enabled, true) }

// PointDyn is a scheduling point whose spinning status is decided each time
// the scheduler looks: while yieldFn() is true the thread is only scheduled
// when no non-spinning thread is enabled (used for a blocking Read that
// "eventually returns" with a timeout when nothing else can move).
func PointDyn(label string, enabled func() bool, yieldFn func() bool) {
	s := active
	if s == nil || s.aborting {
		return
	}
	t := s.running
	t.pending = &opRec{label: label, enabled: enabled, yieldFn: yieldFn}
	s.ctl <- struct{}{}
	<-t.wake
	if s.aborting {
		panic(abortSentinel)
	}
}

func point(label string, enabled func() bool, yield bool) {
	s := active
	if s == nil {
		return
	}
	if s.aborting {
		return
	}
	t := s.running
	t.pending = &opRec{label: label, enabled: enabled, yield: yield}
	s.ctl <- struct{}{}
	<-t.wake
	if s.aborting {
		panic(abortSentinel)
	}
	if traceOn {
		fmt.Fprintf(os.Stderr, "  sched: %-10s resumes at %s\n", t.Name, label)
	}
}

// traceOn (environment variable SCHED_TRACE) prints which thread resumes at which point: a debugging aid for replays.
var traceOn = os.Getenv("SCHED_TRACE") != ""

// Quiesce parks the calling thread until no other thread is enabled
// (spinners do not count). Used by sequential history drivers.
func Quiesce() {
	s := active
	if s == nil || s.aborting {
		return
	}
	me := s.running
	point("quiesce", func() bool {
		for _, t := range s.threads {
			if t == me || t.done || t.pending == nil || t.pending.isYield() {
				continue
			}
			if t.pending.label == "quiesce" {
				continue
			}
			if t.pending.enabled == nil || t.pending.enabled() {
				return false
			}
		}
		return true
	}, false)
}

// Choose is an environment choice point with n alternatives; alternative 0 is
// the default answer.
func Choose(n int, label string) int {
	s := active
	if s == nil || n <= 1 || s.aborting {
		return 0
	}
	return s.choose(KindEnv, n, false, label)
}

func (s *session) choose(kind, n int, runningEnabled bool, label string) int {
	c := 0
	if s.pos < len(s.cfg.Prefix) {
		c = s.cfg.Prefix[s.pos]
		if c < 0 || c >= n {
			s.status = StatusDivergent
			s.notes = append(s.notes, fmt.Sprintf("prefix[%d]=%d out of range %d at %s", s.pos, c, n, label))
			c = 0
		}
	}
	s.pos++
	s.trace = append(s.trace, PointRec{Kind: kind, N: n, Chosen: c, RunningEnabled: runningEnabled, Label: label})
	return c
}

// Run executes main as thread 0 under the scheduler and returns when the
// execution is over. It must not be called concurrently or recursively.
func Run(cfg Config, main func()) *Result {
	if active != nil {
		panic("sched.Run: session already active")
	}
	if cfg.MaxSteps == 0 {
		cfg.MaxSteps = 20000
	}
	if cfg.MaxSpin == 0 {
		cfg.MaxSpin = 200
	}
	s := &session{cfg: cfg, ctl: make(chan struct{})}
	active = s
	startWatchdog()
	s.spawn("main", false, main)
	spin := 0
	var last *Thread
	for s.status == "" {
		// Enabled sets.
		var en, ys []*Thread
		unfinished := false
		for _, t := range s.threads {
			if t.done {
				continue
			}
			if !t.Daemon {
				unfinished = true
			}
			if t.pending == nil {
				continue
			}
			if t.pending.enabled != nil && !t.pending.enabled() {
				continue
			}
			if t.pending.isYield() {
				ys = append(ys, t)
			} else {
				en = append(en, t)
			}
		}
		if len(en) == 0 {
			if !unfinished {
				s.status = StatusDone
				break
			}
			if len(ys) == 0 {
				s.status = StatusDeadlock
				break
			}
			spin++
			if spin > cfg.MaxSpin {
				s.status = StatusLivelock
				break
			}
			en = ys
		} else {
			spin = 0
		}
		// canonical order: running thread first if still enabled, then ascending ids
		runningEnabled := false
		if last != nil {
			for i, t := range en {
				if t == last {
					runningEnabled = true
					copy(en[1:i+1], en[:i])
					en[0] = last
					break
				}
			}
		}
		pick := en[0]
		if len(en) > 1 {
			pick = en[s.choose(KindThread, len(en), runningEnabled, "sched")]
			if s.status != "" {
				break
			}
		}
		s.steps++
		StepCounter.Add(1)
		if s.steps > cfg.MaxSteps {
			s.status = StatusHorizon
			break
		}
		s.running = pick
		last = pick
		label := "start"
		if pick.pending != nil {
			label = pick.pending.label
		}
		pick.pending = nil
		seq := stepSeq.Add(1) // odd: a step is in progress
		pick.wake <- struct{}{}
		for waiting := true; waiting; {
			select {
			case <-s.ctl:
				waiting = false
			case v := <-stuckCh:
				if v == seq {
					s.status = StatusStuck
					for _, o := range s.threads {
						if o != pick && !o.done && o.pending != nil && (o.pending.enabled == nil || o.pending.enabled()) {
							s.status = StatusStuckOpen // the scheduler runs one thread at a time: what this one waits for may be what that one would do next
						}
					}
					s.panicVal = fmt.Sprintf("thread %s resumed at %q and has not reached another scheduling point for %v: it is blocked on something the scheduler does not control", pick.Name, label, StuckAfter)
					pick.lost, pick.done = true, true
					waiting = false
				}
			}
		}
		stepSeq.Add(1)
	}
	res := &Result{Status: s.status, Steps: s.steps, PanicVal: s.panicVal}
	if s.status == StatusDeadlock || s.status == StatusLivelock {
		for _, t := range s.threads {
			if !t.done {
				l := "?"
				if t.pending != nil {
					l = t.pending.label
				}
				res.Blocked = append(res.Blocked, t.Name+": "+l)
			}
		}
		sort.Strings(res.Blocked)
	}
	// Tear down: wake every unfinished thread with the abort flag set.
	s.aborting = true
	for _, t := range s.threads {
		if !t.done {
			s.running = t
			t.wake <- struct{}{}
			<-s.ctl
		}
	}
	for _, f := range s.cleanups {
		f()
	}
	res.Trace = s.trace
	res.Notes = s.notes
	if s.pos < len(cfg.Prefix) && res.Status != StatusDivergent {
		res.Notes = append(res.Notes, fmt.Sprintf("prefix longer than execution (%d > %d)", len(cfg.Prefix), s.pos))
		res.Status = StatusDivergent
	}
	active = nil
	return res
}
