//go:build vsched

// Package explore is the stateless depth-first explorer over choice sequences
// of the controlled scheduler: iterative context bounding (preemptions) plus a
// separate bound on deviations from the default environment answer.
package explore

import (
	"fmt"
	"time"

	"github.com/pion/stun/v3/zzverif/sched"
)

// RunFunc executes the scenario once, replaying prefix, and returns the
// scheduler result plus what the scenario's oracle found.
type RunFunc func(prefix []int) (res *sched.Result, violations []Finding, outcome string)

// Finding is one oracle failure of one execution.
type Finding struct {
	Key    string
	Detail string
}

// Options bound the search.
type Options struct {
	Preemptions int // max preemptions per execution
	EnvDevs     int // max non-default environment answers per execution (-1 = unbounded)
	Shard       int
	NShards     int
	Deadline    time.Time
	MaxFindings int
	// KnownKeys are finding keys listed as known findings: such a finding is recorded once and does not count
	// towards MaxFindings, so that a known defect does not end the exploration of the scenario it shows in
	KnownKeys map[string]bool
}

// Found is a finding with the schedule that produced it.
type Found struct {
	Finding
	Choices []int
	Status  string
}

// Stats is what an exploration covered.
type Stats struct {
	Executions   int64 // executions run by this shard and counted (each execution counted by exactly one shard)
	Points       int64 // recorded choice points in counted executions (transitions)
	MaxPoints    int
	MaxSteps     int
	Outcomes     map[string]int64
	Complete     bool
	Found        []Found
	HarnessError string
}

type explorer struct {
	run          RunFunc
	opt          Options
	st           *Stats
	items        int64
	unknownFound int
	knownSeen    map[string]bool
}

// Explore runs the bounded DFS.
func Explore(run RunFunc, opt Options) *Stats {
	if opt.NShards == 0 {
		opt.NShards = 1
	}
	if opt.MaxFindings == 0 {
		opt.MaxFindings = 8
	}
	e := &explorer{run: run, opt: opt, st: &Stats{Outcomes: map[string]int64{}, Complete: true}}
	// determinism is checked, not assumed: the default schedule is executed twice and must produce the same
	// choice points and the same observation signature
	r1, _, o1 := run(nil)
	r2, _, o2 := run(nil)
	if o1 != o2 || len(r1.Trace) != len(r2.Trace) || r1.Status != r2.Status {
		e.st.HarnessError = fmt.Sprintf("nondeterministic harness: two runs of the default schedule differ (%s/%d points/%q vs %s/%d points/%q)", r1.Status, len(r1.Trace), o1, r2.Status, len(r2.Trace), o2)
		return e.st
	}
	for i := range r1.Trace {
		if r1.Trace[i] != r2.Trace[i] {
			e.st.HarnessError = fmt.Sprintf("nondeterministic harness: choice point %d differs between two runs of the default schedule (%+v vs %+v)", i, r1.Trace[i], r2.Trace[i])
			return e.st
		}
	}
	e.explore(nil, 0, true)
	return e.st
}

// explore runs the execution for prefix and recurses into every alternative
// within the bounds. depth is the number of branchings from the root; nodes of
// depth <= 1 are executed by every shard (to enumerate their children) but
// counted by shard 0 only; each depth-2 subtree belongs to one shard.
func (e *explorer) explore(prefix []int, depth int, mine bool) {
	if e.st.HarnessError != "" {
		return
	}
	if e.unknownFound >= e.opt.MaxFindings {
		e.st.Complete = false // stopped early: what was not explored is not claimed
		return
	}
	if !e.opt.Deadline.IsZero() && time.Now().After(e.opt.Deadline) {
		e.st.Complete = false
		return
	}
	res, viols, outcome := e.run(prefix)
	if res.Status == sched.StatusDivergent {
		e.st.HarnessError = fmt.Sprintf("replay of prefix %v diverged: %v", prefix, res.Notes)
		return
	}
	if res.Status == sched.StatusStuckOpen {
		e.st.Complete = false // an execution the scheduler had to abandon: no verdict for it, and none claimed
	}
	count := mine && (depth >= 2 || e.opt.Shard == 0)
	choices := make([]int, len(res.Trace))
	for i, p := range res.Trace {
		choices[i] = p.Chosen
	}
	if count {
		e.st.Executions++
		e.st.Points += int64(len(res.Trace))
		if len(res.Trace) > e.st.MaxPoints {
			e.st.MaxPoints = len(res.Trace)
		}
		if res.Steps > e.st.MaxSteps {
			e.st.MaxSteps = res.Steps
		}
		e.st.Outcomes[outcome]++
		for _, v := range viols {
			if e.opt.KnownKeys[v.Key] {
				if e.knownSeen == nil {
					e.knownSeen = map[string]bool{}
				}
				if e.knownSeen[v.Key] {
					continue
				}
				e.knownSeen[v.Key] = true
			} else {
				e.unknownFound++
			}
			e.st.Found = append(e.st.Found, Found{Finding: v, Choices: choices, Status: res.Status})
		}
	}
	// costs accumulated along the trace
	pre, env := 0, 0
	for i, p := range res.Trace {
		if i >= len(prefix) {
			for alt := 1; alt < p.N; alt++ {
				np, ne := pre, env
				if p.Kind == sched.KindThread {
					if p.RunningEnabled {
						np++
					}
				} else {
					ne++
				}
				if np > e.opt.Preemptions || (e.opt.EnvDevs >= 0 && ne > e.opt.EnvDevs) {
					continue
				}
				childMine := mine
				if depth == 1 {
					childMine = int(e.items%int64(e.opt.NShards)) == e.opt.Shard
					e.items++
					if !childMine {
						continue
					}
				}
				child := append(append(make([]int, 0, i+1), choices[:i]...), alt)
				e.explore(child, depth+1, childMine)
			}
		}
		if p.Chosen != 0 {
			if p.Kind == sched.KindThread {
				if p.RunningEnabled {
					pre++
				}
			} else {
				env++
			}
		}
	}
}
