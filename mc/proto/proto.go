// Package proto is the data exchanged between worker shards and the vcheck
// supervisor.
package proto

import "encoding/json"

// Violation is one counterexample found by a worker.
type Violation struct {
	// Key is the normalised signature of the failing input / call-site class;
	// KNOWN_FINDINGS.txt is matched against it.
	Key    string          `json:"key"`
	Detail string          `json:"detail"`
	Replay json.RawMessage `json:"replay"` // what the worker needs to re-execute exactly this case
	// Sampled marks findings of a sampling pass (the free-running -race pass): a report is sound by
	// itself, so it is confirmed when it recurs at least once in the 5 replays rather than in all of them.
	Sampled bool `json:"sampled,omitempty"`
}

// ShardResult is what one worker process reports.
type ShardResult struct {
	Property    string                 `json:"property"`
	Build       string                 `json:"build"`
	Shard       int                    `json:"shard"`
	Evaluations int64                  `json:"evaluations"`
	Distinct    int64                  `json:"distinct_nontrivial"`
	Outcomes    map[string]int64       `json:"outcomes"`
	Samples     []interface{}          `json:"samples"`
	Violations  []Violation            `json:"violations"`
	States      int64                  `json:"states"`
	Transitions int64                  `json:"transitions"`
	Traces      int64                  `json:"traces_validated_against_impl"`
	Exhaustive  bool                   `json:"exhaustive"`
	Extra       map[string]interface{} `json:"extra"`
	Notes       []string               `json:"notes"`
	HarnessErr  string                 `json:"harness_error,omitempty"`
}

// ReplayFile is what vcheck writes under replays/.
type ReplayFile struct {
	Property string          `json:"property"`
	Build    string          `json:"build"`
	Tier     string          `json:"tier"`
	Seed     int64           `json:"seed"`
	Key      string          `json:"key"`
	Detail   string          `json:"detail"`
	Payload  json.RawMessage `json:"payload"`
}
