// Package ref holds the reference models: small, boring re-statements of the
// RFC text that share no code with the library under test.
package ref

// Attr is one TLV attribute of a parsed message.
type Attr struct {
	Type  uint16 // as on the wire
	Len   int    // declared value length
	Off   int    // offset of the value's first byte in the message (from byte 0 of the header)
	Value []byte // copy of the Len value bytes
}

// Msg is the result of the reference parse.
type Msg struct {
	TypeWord uint16
	Method   uint16
	Class    uint8
	Length   int
	TID      [12]byte
	Attrs    []Attr
}

// Pad4 rounds n up to a multiple of 4 (RFC 5389 section 15).
func Pad4(n int) int { return (n + 3) &^ 3 }

// Parse is the RFC 5389 section 6 / section 15 framing, written with explicit
// offsets. It returns nil and a reason when the bytes are not a STUN message.
// Tolerated (as the property states): the two leading type bits, bytes after
// the declared length, any padding content.
func Parse(b []byte) (*Msg, string) {
	if len(b) < 20 {
		return nil, "short-header"
	}
	if !(b[4] == 0x21 && b[5] == 0x12 && b[6] == 0xA4 && b[7] == 0x42) {
		return nil, "cookie"
	}
	m := &Msg{}
	m.TypeWord = uint16(b[0])<<8 | uint16(b[1])
	m.Length = int(b[2])<<8 | int(b[3])
	if len(b) < 20+m.Length {
		return nil, "short-body"
	}
	copy(m.TID[:], b[8:20])
	// method/class from figure 3, bit by bit
	v := m.TypeWord & 0x3FFF
	mpos := [12]uint{0, 1, 2, 3, 5, 6, 7, 9, 10, 11, 12, 13}
	for i, p := range mpos {
		if v>>p&1 == 1 {
			m.Method |= 1 << uint(i)
		}
	}
	m.Class = uint8(v>>4&1) | uint8(v>>8&1)<<1
	pos := 0
	for pos < m.Length {
		if pos+4 > m.Length {
			return nil, "attr-header"
		}
		h := 20 + pos
		t := uint16(b[h])<<8 | uint16(b[h+1])
		l := int(b[h+2])<<8 | int(b[h+3])
		if pos+4+Pad4(l) > m.Length {
			return nil, "attr-value"
		}
		val := make([]byte, l)
		for i := 0; i < l; i++ {
			val[i] = b[h+4+i]
		}
		m.Attrs = append(m.Attrs, Attr{Type: t, Len: l, Off: h + 4, Value: val})
		pos += 4 + Pad4(l)
	}
	return m, ""
}

// CanonType maps the legacy 0x8020 alias onto XOR-MAPPED-ADDRESS.
func CanonType(t uint16) uint16 {
	if t == 0x8020 {
		return 0x0020
	}
	return t
}

// EncodeAttr is one attribute to encode.
type EncodeAttr struct {
	Type  uint16
	Value []byte
}

// Encode produces the canonical encoding: header, then each TLV followed by
// zero padding to a 4-byte boundary, header length = number of bytes after
// the header.
func Encode(typeWord uint16, tid [12]byte, attrs []EncodeAttr) []byte {
	body := 0
	for _, a := range attrs {
		body += 4 + Pad4(len(a.Value))
	}
	out := make([]byte, 20+body)
	out[0], out[1] = byte(typeWord>>8), byte(typeWord)
	out[2], out[3] = byte(body>>8), byte(body)
	out[4], out[5], out[6], out[7] = 0x21, 0x12, 0xA4, 0x42
	copy(out[8:20], tid[:])
	pos := 20
	for _, a := range attrs {
		out[pos], out[pos+1] = byte(a.Type>>8), byte(a.Type)
		out[pos+2], out[pos+3] = byte(len(a.Value)>>8), byte(len(a.Value))
		copy(out[pos+4:], a.Value)
		pos += 4 + Pad4(len(a.Value))
	}
	return out
}

// TypeWord builds the 14-bit message type from method and class (figure 3).
func TypeWord(method uint16, class uint8) uint16 {
	var v uint16
	mpos := [12]uint{0, 1, 2, 3, 5, 6, 7, 9, 10, 11, 12, 13}
	for i, p := range mpos {
		if method>>uint(i)&1 == 1 {
			v |= 1 << p
		}
	}
	v |= uint16(class&1) << 4
	v |= uint16(class>>1&1) << 8
	return v
}

// WellFormedZeroPad reports whether b is exactly one message (no trailing
// bytes) whose padding bytes are all zero; the reason names the first defect.
func WellFormedZeroPad(b []byte) string {
	m, why := Parse(b)
	if m == nil {
		return why
	}
	if len(b) != 20+m.Length {
		return "trailing-bytes"
	}
	if m.Length%4 != 0 {
		return "length-not-multiple-of-4"
	}
	for _, a := range m.Attrs {
		for i := a.Off + a.Len; i < a.Off+Pad4(a.Len); i++ {
			if b[i] != 0 {
				return "nonzero-padding"
			}
		}
	}
	return ""
}
