package ref

import "errors"

// RFC 5389 section 15 attribute value formats.

// Addr is a transport address.
type Addr struct {
	IP   []byte // 4 or 16 bytes
	Port int
}

// EncodeMappedAddress is section 15.1: 0x00, family (0x01 IPv4 / 0x02 IPv6),
// port, address.
func EncodeMappedAddress(a Addr) []byte {
	fam := byte(0x01)
	if len(a.IP) == 16 {
		fam = 0x02
	}
	out := []byte{0x00, fam, byte(a.Port >> 8), byte(a.Port)}
	return append(out, a.IP...)
}

// DecodeMappedAddress reads a section 15.1 value.
func DecodeMappedAddress(v []byte) (Addr, error) {
	if len(v) < 4 {
		return Addr{}, errors.New("short")
	}
	var n int
	switch v[1] {
	case 0x01:
		n = 4
	case 0x02:
		n = 16
	default:
		return Addr{}, errors.New("family")
	}
	if v[0] != 0 || len(v) != 4+n {
		return Addr{}, errors.New("length")
	}
	return Addr{IP: append([]byte(nil), v[4:]...), Port: int(v[2])<<8 | int(v[3])}, nil
}

var cookieBytes = [4]byte{0x21, 0x12, 0xA4, 0x42}

// EncodeXORMappedAddress is section 15.2: X-Port = port xor the 16 most
// significant bits of the magic cookie; X-Address = address xor cookie (IPv4)
// or xor cookie||transaction ID (IPv6).
func EncodeXORMappedAddress(a Addr, tid [12]byte) []byte {
	fam := byte(0x01)
	if len(a.IP) == 16 {
		fam = 0x02
	}
	xp := a.Port ^ 0x2112
	out := []byte{0x00, fam, byte(xp >> 8), byte(xp)}
	for i, b := range a.IP {
		var k byte
		if i < 4 {
			k = cookieBytes[i]
		} else {
			k = tid[i-4]
		}
		out = append(out, b^k)
	}
	return out
}

// DecodeXORMappedAddress reads a section 15.2 value.
func DecodeXORMappedAddress(v []byte, tid [12]byte) (Addr, error) {
	a, err := DecodeMappedAddress(v)
	if err != nil {
		return a, err
	}
	a.Port ^= 0x2112
	for i := range a.IP {
		if i < 4 {
			a.IP[i] ^= cookieBytes[i]
		} else {
			a.IP[i] ^= tid[i-4]
		}
	}
	return a, nil
}

// EncodeErrorCode is section 15.6: 21 reserved bits, class (3 bits, hundreds
// digit), number (8 bits, code modulo 100), reason phrase.
func EncodeErrorCode(code int, reason []byte) []byte {
	out := []byte{0, 0, byte(code / 100), byte(code % 100)}
	return append(out, reason...)
}

// DecodeErrorCode reads a section 15.6 value.
func DecodeErrorCode(v []byte) (int, []byte, error) {
	if len(v) < 4 {
		return 0, nil, errors.New("short")
	}
	return int(v[2]&0x07)*100 + int(v[3]), append([]byte(nil), v[4:]...), nil
}

// EncodeUnknownAttributes is section 15.9: a list of 16-bit attribute types.
func EncodeUnknownAttributes(types []uint16) []byte {
	out := make([]byte, 0, 2*len(types))
	for _, t := range types {
		out = append(out, byte(t>>8), byte(t))
	}
	return out
}

// DecodeUnknownAttributes reads a section 15.9 value.
func DecodeUnknownAttributes(v []byte) ([]uint16, error) {
	if len(v)%2 != 0 {
		return nil, errors.New("odd length")
	}
	var out []uint16
	for i := 0; i < len(v); i += 2 {
		out = append(out, uint16(v[i])<<8|uint16(v[i+1]))
	}
	return out, nil
}
