package ref

import "sort"

// AgentModel is the transaction-table specification of C13: an id -> deadline
// partial map, a closed flag and the current handler.

// Abstract results of a call.
const (
	RetNil       = "nil"
	RetClosed    = "ErrAgentClosed"
	RetExists    = "ErrTransactionExists"
	RetNotExists = "ErrTransactionNotExists"
)

// Abstract event kinds.
const (
	EvStopped = "stopped" // carries the error given to StopWithError
	EvMessage = "message"
	EvTimeout = "timeout"
	EvClosed  = "closed"
)

// AgentEvent is one handler invocation.
type AgentEvent struct {
	Handler int    // which handler received it
	ID      string // transaction id (hex or name)
	Kind    string
	Arg     string // error name for stopped, message identity for message
}

// AgentModel state.
type AgentModel struct {
	Deadline map[string]int64
	Closed   bool
	Handler  int
	// Terminal counts terminal events per registration, to state the
	// exactly-once corollary on the model itself.
	Open map[string]bool
}

// NewAgentModel returns the initial state with handler h.
func NewAgentModel(h int) *AgentModel {
	return &AgentModel{Deadline: map[string]int64{}, Handler: h, Open: map[string]bool{}}
}

// Key is a canonical rendering of the abstract state.
func (m *AgentModel) Key() string {
	if m.Closed {
		return "closed"
	}
	ids := make([]string, 0, len(m.Deadline))
	for id := range m.Deadline {
		ids = append(ids, id)
	}
	sort.Strings(ids)
	s := ""
	for _, id := range ids {
		s += id + "=" + itoa(m.Deadline[id]) + ";"
	}
	return s + "h" + itoa(int64(m.Handler))
}

func itoa(v int64) string {
	if v == 0 {
		return "0"
	}
	neg := v < 0
	if neg {
		v = -v
	}
	var b []byte
	for v > 0 {
		b = append([]byte{byte('0' + v%10)}, b...)
		v /= 10
	}
	if neg {
		b = append([]byte{'-'}, b...)
	}
	return string(b)
}

// Start registers id with a deadline.
func (m *AgentModel) Start(id string, deadline int64) string {
	if m.Closed {
		return RetClosed
	}
	if _, ok := m.Deadline[id]; ok {
		return RetExists
	}
	m.Deadline[id] = deadline
	return RetNil
}

// Stop (StopWithError) removes id and emits one stopped event.
func (m *AgentModel) Stop(id, errName string) (string, []AgentEvent) {
	if m.Closed {
		return RetClosed, nil
	}
	if _, ok := m.Deadline[id]; !ok {
		return RetNotExists, nil
	}
	delete(m.Deadline, id)
	return RetNil, []AgentEvent{{Handler: m.Handler, ID: id, Kind: EvStopped, Arg: errName}}
}

// Process always emits the message and unregisters its id.
func (m *AgentModel) Process(id, msg string) (string, []AgentEvent) {
	if m.Closed {
		return RetClosed, nil
	}
	delete(m.Deadline, id)
	return RetNil, []AgentEvent{{Handler: m.Handler, ID: id, Kind: EvMessage, Arg: msg}}
}

// Collect times out exactly the transactions whose deadline is strictly before t.
func (m *AgentModel) Collect(t int64) (string, []AgentEvent) {
	if m.Closed {
		return RetClosed, nil
	}
	var evs []AgentEvent
	for id, d := range m.Deadline {
		if d < t {
			evs = append(evs, AgentEvent{Handler: m.Handler, ID: id, Kind: EvTimeout})
		}
	}
	for _, e := range evs {
		delete(m.Deadline, e.ID)
	}
	SortEvents(evs)
	return RetNil, evs
}

// SetHandler replaces the handler.
func (m *AgentModel) SetHandler(h int) string {
	if m.Closed {
		return RetClosed
	}
	m.Handler = h
	return RetNil
}

// Close emits a closed event for exactly the remaining transactions.
func (m *AgentModel) Close() (string, []AgentEvent) {
	if m.Closed {
		return RetClosed, nil
	}
	var evs []AgentEvent
	for id := range m.Deadline {
		evs = append(evs, AgentEvent{Handler: m.Handler, ID: id, Kind: EvClosed})
	}
	m.Deadline = map[string]int64{}
	m.Closed = true
	SortEvents(evs)
	return RetNil, evs
}

// Clone copies the model.
func (m *AgentModel) Clone() *AgentModel {
	c := &AgentModel{Deadline: map[string]int64{}, Closed: m.Closed, Handler: m.Handler, Open: map[string]bool{}}
	for k, v := range m.Deadline {
		c.Deadline[k] = v
	}
	return c
}

// SortEvents orders events canonically (the order inside one call is unspecified).
func SortEvents(evs []AgentEvent) {
	sort.Slice(evs, func(i, j int) bool {
		a, b := evs[i], evs[j]
		if a.ID != b.ID {
			return a.ID < b.ID
		}
		if a.Kind != b.Kind {
			return a.Kind < b.Kind
		}
		if a.Arg != b.Arg {
			return a.Arg < b.Arg
		}
		return a.Handler < b.Handler
	})
}
