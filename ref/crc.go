package ref

// CRC32 is the IEEE 802.3 CRC-32 (reflected, polynomial 0xEDB88320, initial
// value and final XOR 0xFFFFFFFF), computed bit at a time.
func CRC32(b []byte) uint32 {
	crc := uint32(0xFFFFFFFF)
	for _, x := range b {
		crc ^= uint32(x)
		for k := 0; k < 8; k++ {
			if crc&1 == 1 {
				crc = crc>>1 ^ 0xEDB88320
			} else {
				crc >>= 1
			}
		}
	}
	return ^crc
}

var crcTable [256]uint32

func init() {
	for i := 0; i < 256; i++ {
		c := uint32(i)
		for k := 0; k < 8; k++ {
			if c&1 == 1 {
				c = c>>1 ^ 0xEDB88320
			} else {
				c >>= 1
			}
		}
		crcTable[i] = c
	}
}

// CRC32Fast is the table-driven form of CRC32 (same definition; the table is
// generated from the same polynomial). Used where millions of CRCs are needed;
// the harness cross-checks it against CRC32 on every message once.
func CRC32Fast(b []byte) uint32 {
	crc := uint32(0xFFFFFFFF)
	for _, x := range b {
		crc = crcTable[byte(crc)^x] ^ crc>>8
	}
	return ^crc
}

// Fingerprint is RFC 5389 section 15.5: CRC-32 of the message up to (but
// excluding) the FINGERPRINT attribute, XOR 0x5354554e.
func Fingerprint(b []byte) uint32 { return CRC32Fast(b) ^ 0x5354554e }
