package ref

import (
	"crypto/sha1" //nolint:gosec
	"crypto/sha256"
	"hash"
)

// HMAC is RFC 2104 written out: H(K' xor opad || H(K' xor ipad || text)) with
// K' = K padded with zeros to the block size, or H(K) if K is longer than a
// block. It uses only the hash functions, not crypto/hmac.
func HMAC(newHash func() hash.Hash, key, text []byte) []byte {
	h := newHash()
	bs := h.BlockSize()
	k := make([]byte, bs)
	if len(key) > bs {
		h.Write(key)
		copy(k, h.Sum(nil))
		h.Reset()
	} else {
		copy(k, key)
	}
	ipad := make([]byte, bs)
	opad := make([]byte, bs)
	for i := 0; i < bs; i++ {
		ipad[i] = k[i] ^ 0x36
		opad[i] = k[i] ^ 0x5c
	}
	h.Write(ipad)
	h.Write(text)
	inner := h.Sum(nil)
	h2 := newHash()
	h2.Write(opad)
	h2.Write(inner)
	return h2.Sum(nil)
}

// HMACSHA1 is HMAC with SHA-1.
func HMACSHA1(key, text []byte) []byte { return HMAC(sha1.New, key, text) }

// HMACSHA256 is HMAC with SHA-256.
func HMACSHA256(key, text []byte) []byte { return HMAC(sha256.New, key, text) }
