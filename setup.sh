#!/bin/bash
# Offline setup: build the supervisor and warm the Go build cache for every
# worker variant (plain / debug / sched overlay / race) so that the first check
# does not pay a cold build.
set -e
cd "$(dirname "$(readlink -f "$0")")"
export GOFLAGS=-mod=mod GOPROXY=off GOSUMDB=off GOTOOLCHAIN=local
cp /repo/go.sum ./go.sum
mkdir -p bin evidence replays
go build -o bin/vcheck ./cmd/vcheck
./bin/vcheck --warm all >/dev/null 2>&1 || true
echo setup ok
