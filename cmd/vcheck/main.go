// vcheck is the supervisor of every check: it generates the overlay from the
// current working tree of /repo, builds the worker(s), runs shards as
// subprocesses, aggregates what they covered into evidence/<ID>.json, writes a
// replay file per violation, consults KNOWN_FINDINGS.txt and sets the exit
// code (0 held / only known findings, 1 VIOLATION, 2 harness error).
package main

import (
	"bytes"
	"crypto/sha256"
	"encoding/hex"
	"encoding/json"
	"flag"
	"fmt"
	"os"
	"os/exec"
	"path/filepath"
	"runtime"
	"sort"
	"strconv"
	"strings"
	"sync"
	"time"

	"verif/mc/proto"
	"verif/mc/rewrite"
)

// repoDir is /repo. VERIF_REPO_DIR points the checks at another copy of the library (used only by
// tools/seedcheck.py to run the checks against a scratch worktree with a seeded change; never by MANIFEST commands).
var repoDir = func() string {
	if d := os.Getenv("VERIF_REPO_DIR"); d != "" {
		return d
	}
	return "/repo"
}()

// verifDir is the root of the verification tree: the parent of the directory
// holding this executable (bin/vcheck), so that a snapshot of /verif elsewhere
// (vp run) builds and writes inside itself.
var verifDir = func() string {
	if exe, err := os.Executable(); err == nil {
		if d := filepath.Dir(filepath.Dir(exe)); d != "" {
			if _, err := os.Stat(filepath.Join(d, "worker")); err == nil {
				return d
			}
		}
	}
	return "/verif"
}()

type build struct {
	Name  string
	Sched bool
	Tags  string
	Race  bool
}

var (
	bPlain = build{Name: "plain", Tags: "verif"}
	bDebug = build{Name: "debug", Tags: "verif,debug"}
	bSched = build{Name: "sched", Sched: true, Tags: "verif,vsched"}
	bRace  = build{Name: "race", Tags: "verif", Race: true}
)

type propMeta struct {
	Level       string
	Builds      []build
	Shards      int // shards per build (0 => NumCPU)
	Rule        string
	Assumptions []string
	QuickBudget int // seconds handed to workers as their internal deadline
	ThorBudget  int
}

func (p propMeta) budget(tier string) int {
	if tier == "thorough" {
		if p.ThorBudget > 0 {
			return p.ThorBudget
		}
		return 1500
	}
	if p.QuickBudget > 0 {
		return p.QuickBudget
	}
	return 100
}

func fatal(format string, a ...interface{}) {
	fmt.Fprintf(os.Stderr, "vcheck: harness error: "+format+"\n", a...)
	os.Exit(2)
}

func goEnv() []string {
	env := os.Environ()
	env = append(env, "GOFLAGS=-mod=mod", "GOPROXY=off", "GOSUMDB=off", "GOTOOLCHAIN=local", "CGO_ENABLED=0")
	return env
}

type findings struct {
	known map[string]string // property\x00key -> description
}

func loadFindings() findings {
	f := findings{known: map[string]string{}}
	b, err := os.ReadFile(filepath.Join(verifDir, "KNOWN_FINDINGS.txt"))
	if err != nil {
		return f
	}
	for _, line := range strings.Split(string(b), "\n") {
		line = strings.TrimSpace(line)
		if !strings.HasPrefix(line, "finding:") {
			continue
		}
		var prop, key string
		rest := strings.TrimSpace(strings.TrimPrefix(line, "finding:"))
		for _, fld := range strings.Fields(rest) {
			if strings.HasPrefix(fld, "property=") {
				prop = strings.TrimPrefix(fld, "property=")
			} else if strings.HasPrefix(fld, "key=") {
				key = strings.TrimPrefix(fld, "key=")
			}
		}
		if prop != "" && key != "" {
			f.known[prop+"\x00"+key] = rest
		}
	}
	return f
}

func main() {
	tier := flag.String("tier", "", "quick|thorough")
	replay := flag.String("replay", "", "replay file")
	keep := flag.Bool("keep", false, "keep build directory")
	_ = flag.Bool("warm", false, "with id \"all\": warm the build cache")
	shardsFlag := flag.Int("shards", 0, "override shard count")
	flag.Usage = func() { fmt.Fprintln(os.Stderr, "usage: vcheck [flags] <property-id>") }
	// allow flags after the id
	args := os.Args[1:]
	var id string
	var rest []string
	for i := 0; i < len(args); i++ {
		if !strings.HasPrefix(args[i], "-") && id == "" {
			id = args[i]
			continue
		}
		rest = append(rest, args[i])
	}
	_ = flag.CommandLine.Parse(rest)
	if id == "" {
		flag.Usage()
		os.Exit(2)
	}
	if id == "all" {
		// --warm: build every worker variant once so that the Go build cache is hot
		bdir := filepath.Join(verifDir, ".build", "warm")
		_ = os.MkdirAll(bdir, 0o755)
		for _, b := range []build{bPlain, bDebug, bSched, bRace} {
			if _, err := buildWorker(bdir, b); err != nil {
				fmt.Fprintln(os.Stderr, "warm:", err)
			}
		}
		_ = os.RemoveAll(bdir)
		return
	}
	if *tier == "" {
		*tier = os.Getenv("VERIF_TIER")
	}
	if *tier != "thorough" {
		*tier = "quick"
	}
	seed := int64(1)
	if s := os.Getenv("VERIF_SEED"); s != "" {
		if v, err := strconv.ParseInt(s, 10, 64); err == nil {
			seed = v
		}
	}
	meta, ok := props[id]
	if !ok {
		fatal("unknown property %s", id)
	}
	{
		var ks []string
		for k := range loadFindings().known {
			if strings.HasPrefix(k, id+"\x00") {
				ks = append(ks, strings.TrimPrefix(k, id+"\x00"))
			}
		}
		sort.Strings(ks)
		knownKeysEnv = strings.Join(ks, ",")
	}
	start := time.Now()
	// one build directory per process (concurrent runs of one property do not disturb each other); directories
	// left behind by runs that are gone are removed here
	if old, _ := filepath.Glob(filepath.Join(verifDir, ".build", id+".*")); len(old) > 0 {
		for _, d := range old {
			pid := d[strings.LastIndex(d, ".")+1:]
			if _, err := os.Stat("/proc/" + pid); err != nil {
				_ = os.RemoveAll(d)
			}
		}
	}
	_ = os.RemoveAll(filepath.Join(verifDir, ".build", id))
	bdir := filepath.Join(verifDir, ".build", fmt.Sprintf("%s.%d", id, os.Getpid()))
	_ = os.RemoveAll(bdir)
	if err := os.MkdirAll(bdir, 0o755); err != nil {
		fatal("%v", err)
	}
	if !*keep {
		defer os.RemoveAll(bdir)
	}

	var rf *proto.ReplayFile
	if *replay != "" {
		b, err := os.ReadFile(*replay)
		if err != nil {
			fatal("%v", err)
		}
		rf = &proto.ReplayFile{}
		if err := json.Unmarshal(b, rf); err != nil {
			fatal("replay file: %v", err)
		}
		if rf.Property != id {
			fatal("replay file is for %s", rf.Property)
		}
	}

	// Build every variant in parallel.
	bins := map[string]string{}
	var wg sync.WaitGroup
	var mu sync.Mutex
	var buildErr error
	for _, b := range meta.Builds {
		if rf != nil && rf.Build != b.Name {
			continue
		}
		wg.Add(1)
		go func(b build) {
			defer wg.Done()
			bin, err := buildWorker(bdir, b)
			mu.Lock()
			defer mu.Unlock()
			if err != nil && buildErr == nil {
				buildErr = err
			}
			bins[b.Name] = bin
		}(b)
	}
	wg.Wait()
	if buildErr != nil {
		fatal("build failed: %v", buildErr)
	}
	// No verdict of the scheduler engine is believed before the engine has passed its self-test in this very build
	// (interleaving counts per preemption bound, deadlock / lost wake-up / livelock detection, pool and map answers,
	// replay): a failure is a harness error.
	selfNote := ""
	if sb, ok := bins[bSched.Name]; ok {
		out := filepath.Join(bdir, "res-selftest.json")
		res, herr := runWorker(sb, []string{"-prop", "SELF", "-tier", "quick", "-build", bSched.Name, "-shard", "0", "-nshards", "1",
			"-seed", "1", "-budget", "60", "-out", out}, out, 120*time.Second)
		if herr != "" {
			fatal("scheduler engine self-test: %s", herr)
		}
		selfNote = fmt.Sprintf("scheduler engine self-test passed in this build: %v programs, %v executions", res.Extra["selftest_programs"], res.Extra["selftest_executions"])
	}

	if rf != nil {
		viol, herr := runReplay(bins[rf.Build], id, rf, bdir)
		if herr != "" {
			fatal("replay: %s", herr)
		}
		if viol != nil {
			fmt.Printf("VIOLATION property=%s replay=%s\n  %s\n", id, *replay, viol.Detail)
			cleanupAndExit(bdir, *keep, 1)
		}
		fmt.Printf("replay of %s: property held\n", *replay)
		cleanupAndExit(bdir, *keep, 0)
	}

	nsh := meta.Shards
	if nsh == 0 {
		nsh = runtime.NumCPU()
	}
	if *shardsFlag > 0 {
		nsh = *shardsFlag
	}
	type job struct {
		b     build
		shard int
	}
	var jobs []job
	for _, b := range meta.Builds {
		n := nsh
		if b.Race {
			n = 1
		}
		for s := 0; s < n; s++ {
			jobs = append(jobs, job{b, s})
		}
	}
	results := make([]*proto.ShardResult, len(jobs))
	errs := make([]string, len(jobs))
	sem := make(chan struct{}, runtime.NumCPU())
	budget := meta.budget(*tier)
	if *tier == "thorough" {
		// the builds run one after the other (each fills the machine with its shards): the property's budget is shared
		// between them, so that the wall time of a thorough check is about its budget whatever the number of builds
		nb := 0
		for _, b := range meta.Builds {
			if !b.Race {
				nb++
			}
		}
		if nb > 1 {
			budget /= nb
		}
	}
	for i, j := range jobs {
		wg.Add(1)
		go func(i int, j job) {
			defer wg.Done()
			sem <- struct{}{}
			defer func() { <-sem }()
			out := filepath.Join(bdir, fmt.Sprintf("res-%s-%d.json", j.b.Name, j.shard))
			res, herr := runWorker(bins[j.b.Name], []string{"-prop", id, "-tier", *tier, "-build", j.b.Name,
				"-shard", strconv.Itoa(j.shard), "-nshards", strconv.Itoa(nsh), "-seed", strconv.FormatInt(seed, 10),
				"-budget", strconv.Itoa(budget), "-out", out}, out, time.Duration(budget*3+120)*time.Second)
			results[i], errs[i] = res, herr
		}(i, j)
	}
	wg.Wait()
	// a worker that died (a fatal runtime error in library code the harness cannot contain) is a harness error - unless
	// another worker of this run confirms a violation: then that is reported and the dead worker is mentioned
	var workerErrs []string
	for i, e := range errs {
		if e != "" {
			workerErrs = append(workerErrs, fmt.Sprintf("worker %s shard %d: %s", jobs[i].b.Name, jobs[i].shard, e))
		}
	}

	// Aggregate.
	agg := proto.ShardResult{Property: id, Outcomes: map[string]int64{}, Extra: map[string]interface{}{}, Exhaustive: true}
	if selfNote != "" {
		agg.Notes = append(agg.Notes, selfNote)
	}
	perBuild := map[string]map[string]int64{}
	var viols []struct {
		v proto.Violation
		b string
	}
	for i, r := range results {
		if r == nil {
			agg.Exhaustive = false
			continue
		}
		agg.Evaluations += r.Evaluations
		agg.Distinct += r.Distinct
		agg.States += r.States
		agg.Transitions += r.Transitions
		agg.Traces += r.Traces
		if !r.Exhaustive {
			agg.Exhaustive = false
		}
		for k, v := range r.Outcomes {
			agg.Outcomes[k] += v
		}
		pb := perBuild[jobs[i].b.Name]
		if pb == nil {
			pb = map[string]int64{}
			perBuild[jobs[i].b.Name] = pb
		}
		pb["evaluations"] += r.Evaluations
		if len(agg.Samples) < 8 {
			for _, s := range r.Samples {
				if len(agg.Samples) < 8 {
					agg.Samples = append(agg.Samples, s)
				}
			}
		}
		for k, v := range r.Extra {
			mergeExtra(agg.Extra, k, v)
		}
		for _, n := range r.Notes {
			if len(agg.Notes) < 20 {
				agg.Notes = append(agg.Notes, n)
			}
		}
		for _, v := range r.Violations {
			viols = append(viols, struct {
				v proto.Violation
				b string
			}{v, jobs[i].b.Name})
		}
	}

	// Violations: dedupe by key, confirm by replay 5x, classify against known findings.
	kf := loadFindings()
	seenKey := map[string]bool{}
	exit := 0
	nviol := 0
	var knownLines, violLines, unconfirmed []string
	sort.SliceStable(viols, func(a, b int) bool { return len(viols[a].v.Replay) < len(viols[b].v.Replay) })
	for _, vb := range viols {
		v := vb.v
		if seenKey[v.Key] {
			continue
		}
		seenKey[v.Key] = true
		h := sha256.Sum256(append([]byte(v.Key), v.Replay...))
		rpath := filepath.Join(verifDir, "replays", fmt.Sprintf("%s-%s.json", id, hex.EncodeToString(h[:6])))
		rfile := proto.ReplayFile{Property: id, Build: vb.b, Tier: *tier, Seed: seed, Key: v.Key, Detail: v.Detail, Payload: v.Replay}
		jb, _ := json.MarshalIndent(rfile, "", " ")
		_ = os.MkdirAll(filepath.Join(verifDir, "replays"), 0o755)
		_ = os.WriteFile(rpath, jb, 0o644)
		// confirm
		confirmed := 0
		for k := 0; k < 5; k++ {
			rv, herr := runReplay(bins[vb.b], id, &rfile, bdir)
			if herr != "" {
				fatal("replaying %s: %s", rpath, herr)
			}
			if rv != nil {
				confirmed++
			}
		}
		if v.Sampled && confirmed >= 1 {
			confirmed = 5
		}
		if confirmed != 5 {
			// never reported as a violation; fatal (exit 2) unless some other violation of this run is confirmed
			unconfirmed = append(unconfirmed, fmt.Sprintf("violation %q reproduced %d/5 times from %s: nondeterministic harness, not reported as a violation", v.Key, confirmed, rpath))
			continue
		}
		if desc, ok := kf.known[id+"\x00"+v.Key]; ok {
			knownLines = append(knownLines, "KNOWN-FINDING: "+desc)
			_ = os.Remove(rpath)
			continue
		}
		nviol++
		exit = 1
		if len(violLines) < 10 {
			violLines = append(violLines, fmt.Sprintf("VIOLATION property=%s replay=%s\n  key=%s\n  %s", id, rpath, v.Key, strings.ReplaceAll(v.Detail, "\n", "\n  ")))
		}
	}

	if len(workerErrs) > 0 && nviol == 0 {
		fatal("%s", workerErrs[0])
	}
	for _, w := range workerErrs {
		if len(w) > 400 {
			w = w[:400]
		}
		fmt.Fprintln(os.Stderr, "WORKER DIED (a confirmed violation of this run is reported all the same): "+w)
	}
	if len(unconfirmed) > 0 && nviol == 0 {
		fatal("%s", strings.Join(unconfirmed, "; "))
	}
	for _, u := range unconfirmed {
		fmt.Fprintln(os.Stderr, "UNCONFIRMED (ignored): "+u)
	}

	// Evidence.
	cov := map[string]interface{}{
		"evaluations":         agg.Evaluations,
		"distinct_nontrivial": agg.Distinct,
		"rule":                meta.Rule,
		"samples":             agg.Samples,
		"exhaustive":          agg.Exhaustive,
		"distinct_outcomes":   len(agg.Outcomes),
		"outcomes":            agg.Outcomes,
		"per_build":           perBuild,
		"shards_per_build":    nsh,
	}
	if meta.Level == "model_checking" {
		cov["states"] = agg.States
		cov["transitions"] = agg.Transitions
		cov["traces_validated_against_impl"] = agg.Traces
	}
	for k, v := range agg.Extra {
		cov[k] = v
	}
	if len(agg.Notes) > 0 {
		cov["notes"] = agg.Notes
	}
	if len(knownLines) > 0 {
		cov["known_findings_reproduced"] = knownLines
	}
	ev := map[string]interface{}{
		"property_id": id,
		"tier":        *tier,
		"seed":        seed,
		"level":       meta.Level,
		"coverage":    cov,
		"assumptions": meta.Assumptions,
		"wall_s":      time.Since(start).Seconds(),
		"violations":  nviol,
	}
	eb, _ := json.MarshalIndent(ev, "", " ")
	evDir := filepath.Join(verifDir, "evidence")
	if os.Getenv("VERIF_REPO_DIR") != "" {
		// a run against a scratch copy of the library (seed validation) says nothing about /repo: its evidence
		// goes to a scratch directory, not over the committed files
		evDir = filepath.Join(verifDir, ".build", "evidence-scratch")
	}
	_ = os.MkdirAll(evDir, 0o755)
	if err := os.WriteFile(filepath.Join(evDir, id+".json"), eb, 0o644); err != nil {
		fatal("%v", err)
	}
	for _, l := range knownLines {
		fmt.Println(l)
	}
	for _, l := range violLines {
		fmt.Println(l)
	}
	fmt.Printf("%s tier=%s evaluations=%d distinct=%d outcomes=%d states=%d transitions=%d exhaustive=%v violations=%d known=%d wall=%.1fs\n",
		id, *tier, agg.Evaluations, agg.Distinct, len(agg.Outcomes), agg.States, agg.Transitions, agg.Exhaustive, nviol, len(knownLines), time.Since(start).Seconds())
	if len(agg.Samples) == 0 && exit == 0 {
		fatal("no samples recorded")
	}
	// vacuity guard: a run whose inputs all land in one outcome class decides nothing
	if len(agg.Outcomes) < 2 && exit == 0 {
		fatal("vacuous run: %d distinct outcome classes", len(agg.Outcomes))
	}
	cleanupAndExit(bdir, *keep, exit)
}

func cleanupAndExit(bdir string, keep bool, code int) {
	if !keep {
		_ = os.RemoveAll(bdir)
	}
	os.Exit(code)
}

func mergeExtra(dst map[string]interface{}, k string, v interface{}) {
	old, ok := dst[k]
	if !ok {
		dst[k] = v
		return
	}
	// numbers: "sum_" prefix adds, "max_" takes max, "min_" takes min; otherwise first wins
	of, ok1 := old.(float64)
	nf, ok2 := v.(float64)
	if ok1 && ok2 {
		switch {
		case strings.HasPrefix(k, "sum_"):
			dst[k] = of + nf
		case strings.HasPrefix(k, "max_"):
			if nf > of {
				dst[k] = nf
			}
		case strings.HasPrefix(k, "min_"):
			if nf < of {
				dst[k] = nf
			}
		}
	}
}

func buildWorker(bdir string, b build) (string, error) {
	odir := filepath.Join(bdir, "ov-"+b.Name)
	ov, rep, err := rewrite.Build(rewrite.Options{Repo: repoDir, ShimDir: filepath.Join(verifDir, "mc", "_shim"), OutDir: odir, Sched: b.Sched})
	if err != nil {
		return "", err
	}
	if b.Sched && (rep.Imports == 0 || rep.GoStmts == 0) {
		return "", fmt.Errorf("rewrite found nothing to rewrite (imports=%d go=%d)", rep.Imports, rep.GoStmts)
	}
	bin := filepath.Join(bdir, "worker-"+b.Name)
	args := []string{"build", "-overlay", ov, "-tags", b.Tags, "-o", bin}
	if repoDir != "/repo" {
		// a go.mod whose replace directive points at the other copy
		mf := filepath.Join(odir, "go.mod")
		gm, err := os.ReadFile(filepath.Join(verifDir, "go.mod"))
		if err != nil {
			return "", err
		}
		if err := os.WriteFile(mf, []byte(strings.ReplaceAll(string(gm), "=> /repo", "=> "+repoDir)), 0o644); err != nil {
			return "", err
		}
		if gs, err := os.ReadFile(filepath.Join(verifDir, "go.sum")); err == nil {
			_ = os.WriteFile(filepath.Join(odir, "go.sum"), gs, 0o644)
		}
		args = append(args, "-modfile", mf)
	}
	if b.Race {
		args = append(args, "-race")
	}
	args = append(args, "./worker")
	cmd := exec.Command("go", args...)
	cmd.Dir = verifDir
	cmd.Env = goEnv()
	if b.Race {
		cmd.Env = append(cmd.Env, "CGO_ENABLED=1")
	}
	var out bytes.Buffer
	cmd.Stdout, cmd.Stderr = &out, &out
	if err := cmd.Run(); err != nil {
		return "", fmt.Errorf("go build (%s): %v\n%s", b.Name, err, out.String())
	}
	return bin, nil
}

// knownKeysEnv: the keys of the known findings of the property being checked (explorations record such a finding once
// and go on instead of stopping at it).
var knownKeysEnv string

func runWorker(bin string, args []string, out string, timeout time.Duration) (*proto.ShardResult, string) {
	sh := fmt.Sprintf("ulimit -v 16000000; exec %s %s", bin, strings.Join(args, " "))
	cmd := exec.Command("bash", "-c", sh)
	cmd.Dir = verifDir
	cmd.Env = append(os.Environ(), "GOMEMLIMIT=6GiB", "GORACE=log_path="+out+".race halt_on_error=0 exitcode=0", "VERIF_KNOWN_KEYS="+knownKeysEnv)
	var stderr bytes.Buffer
	cmd.Stdout, cmd.Stderr = &stderr, &stderr
	if err := cmd.Start(); err != nil {
		return nil, err.Error()
	}
	done := make(chan error, 1)
	go func() { done <- cmd.Wait() }()
	var werr error
	select {
	case werr = <-done:
	case <-time.After(timeout):
		_ = cmd.Process.Kill()
		<-done
		return nil, fmt.Sprintf("timeout after %v\n%s", timeout, tail(stderr.String()))
	}
	b, rerr := os.ReadFile(out)
	if rerr != nil {
		return nil, fmt.Sprintf("no result (%v, exit: %v)\n%s", rerr, werr, tail(stderr.String()))
	}
	res := &proto.ShardResult{}
	if err := json.Unmarshal(b, res); err != nil {
		return nil, fmt.Sprintf("bad result: %v", err)
	}
	if res.HarnessErr != "" {
		return nil, res.HarnessErr
	}
	if werr != nil {
		return nil, fmt.Sprintf("exit: %v\n%s", werr, tail(stderr.String()))
	}
	return res, ""
}

func tail(s string) string {
	if len(s) > 4000 {
		return "..." + s[len(s)-4000:]
	}
	return s
}

var replaySeq int
var replayMu sync.Mutex

func runReplay(bin, id string, rf *proto.ReplayFile, bdir string) (*proto.Violation, string) {
	replayMu.Lock()
	replaySeq++
	n := replaySeq
	replayMu.Unlock()
	pf := filepath.Join(bdir, fmt.Sprintf("replay-%d.in", n))
	out := filepath.Join(bdir, fmt.Sprintf("replay-%d.out", n))
	if err := os.WriteFile(pf, rf.Payload, 0o644); err != nil {
		return nil, err.Error()
	}
	res, herr := runWorker(bin, []string{"-prop", id, "-tier", rf.Tier, "-build", rf.Build, "-seed", strconv.FormatInt(rf.Seed, 10),
		"-replay", pf, "-out", out}, out, 300*time.Second)
	if herr != "" {
		return nil, herr
	}
	if len(res.Violations) > 0 {
		return &res.Violations[0], ""
	}
	return nil, ""
}
