package main

var goAssume = "go1.23.5 linux/amd64; library built from /repo's working tree through go build -overlay"

var props = map[string]propMeta{
	"C01": {Level: "exploration", Builds: []build{bPlain, bDebug},
		Rule: "length structures (full declared-length x buffer-length product on Message.Decode/Decode, neighbourhood product on all 7 entry points x capacity slack {0,1,3,64} x fresh/used Message), tiny-alphabet bodies, the 65535-byte family; release and debug builds; oracle: no panic, hang watchdog, heap bytes per call <= 64n+4096, on success every Attributes[i].Value is (by pointer) exactly the declared bytes inside the declared body in wire order, IsMessage true, identical result across entry points/capacities; distinct = distinct (variant set, input bytes) (hash set, capped per shard)",
		Assumptions: []string{goAssume, "cap==len buffers are exact allocations, so a read past the capacity is a bounds panic", "the allocation clause uses the constant 64*n+4096 as 'small multiple'"}},
	"C02": {Level: "exploration", Builds: []build{bPlain},
		Rule:        "every length structure (attribute-length sequences over a body bound x declared length x buffer length), every tiny-alphabet body x declared length, the large family and all 65536 type words, each decoded by Message.Decode and by an independent RFC 5389 parser and compared field by field, then Get/Contains/ForEach checked on every type present and one absent; distinct = distinct input byte strings (64-bit hash set, capped at 3M per shard)",
		Assumptions: []string{goAssume, "value byte content is drawn from fixed fillers; the length/offset structure is what is enumerated exhaustively"}},
	"C16": {Level: "exploration", Builds: []build{bPlain},
		Rule: "every string over the 20-symbol alphabet up to the length bound after each of 7 prefixes (stun: stuns: turn: turns: none STUN: stun://) plus a deterministic long family (1e5 repetitions of each symbol, nested brackets, long ports/queries); each parsed in a child process with a 16 MB stack cap and an 8 s per-string hang watchdog, crashing batches bisected to one string; distinct = number of distinct enumeration indices parsed (index -> string is a bijection)",
		Assumptions: []string{goAssume, "a fatal stack overflow at 16 MB stands for unbounded recursion; time bound = 8 s per string"}},
	"C17": {Level: "exploration", Builds: []build{bPlain},
		Rule: "grammar product 8 schemes x 10 hosts x 15 ports x 15 queries, expectation derived from the generated components; plus every string of the C16 alphabet up to the length bound checked for the accepted-URI invariants and the String/ParseURI round trip; plus DialURI for all 5x3 (scheme,transport) values x 3 hosts on a recording transport.Net (network, address, first record on the wire, SNI); distinct = distinct strings / dial configurations",
		Assumptions: []string{goAssume, "DTLS/TLS ClientHello recognised by record type 0x16 and version bytes; SNI located by its length-prefixed encoding", "ambiguous corners (upper-case scheme, '+5', leading zeros, bare '?', repeated or valueless transport key) assert only 'if accepted then sound'"}},
	"C19": {Level: "exploration", Builds: []build{bPlain}, Shards: 4,
		Rule:        "complete domain: all 4096x4 (method,class) pairs through Value/SetType and all 65536 wire words through ReadValue/Decode, each compared with a bit-by-bit reference built from RFC 5389 figure 3; every case is distinct by construction and counted through a hash set",
		Assumptions: []string{goAssume}},
}
