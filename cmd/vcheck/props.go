package main

var goAssume = "go1.23.5 linux/amd64; library built from /repo's working tree through go build -overlay"

var props = map[string]propMeta{
	"C01": {Level: "exploration", Builds: []build{bPlain, bDebug},
		Rule: "length structures (full declared-length x buffer-length product on Message.Decode/Decode, neighbourhood product on all 7 entry points x capacity slack {0,1,3,64} x fresh/used Message), tiny-alphabet bodies, the 65535-byte family; release and debug builds; oracle: no panic, hang watchdog, heap bytes per call <= 64n+4096, on success every Attributes[i].Value is (by pointer) exactly the declared bytes inside the declared body in wire order, IsMessage true, identical result across entry points/capacities; distinct = distinct (variant set, input bytes) (hash set, capped per shard)",
		Assumptions: []string{goAssume, "cap==len buffers are exact allocations, so a read past the capacity is a bounds panic", "the allocation clause uses the constant 64*n+4096 as 'small multiple'"}},
	"C02": {Level: "exploration", Builds: []build{bPlain},
		Rule:        "every length structure (attribute-length sequences over a body bound x declared length x buffer length), every tiny-alphabet body x declared length, the large family and all 65536 type words, each decoded by Message.Decode and by an independent RFC 5389 parser and compared field by field, then Get/Contains/ForEach checked on every type present and one absent; distinct = distinct input byte strings (64-bit hash set, capped at 3M per shard)",
		Assumptions: []string{goAssume, "value byte content is drawn from fixed fillers; the length/offset structure is what is enumerated exhaustively"}},
	"C06": {Level: "exploration", Builds: []build{bPlain},
		Rule: "all ports 0..65535 x {IPv4, IPv6, IPv4-mapped} x 5 transaction IDs for the XOR family (4 attribute types incl. AddToAs) and the 4 MAPPED-ADDRESS-shaped attributes; address and transaction-ID bytes one position at a time x 256 values; every text length 0..limit for USERNAME/REALM/NONCE/SOFTWARE; ERROR-CODE 300..699 x 8 reason lengths; every 16-bit type as a singleton UNKNOWN-ATTRIBUTES list and lists of 0..64 entries; each checked four ways (AddTo->Decode->GetFrom, bytes == reference RFC encoder, GetFrom on reference-encoded message, reference decoder on library bytes); cases are distinct by construction (counted)",
		Assumptions: []string{goAssume, "text limits are the ones the library documents (513/763)", "XOR is bytewise, so one-position-at-a-time is complete for per-byte behaviour; the 2^128 product is not enumerated"}},
	"C07": {Level: "exploration", Builds: []build{bPlain, bDebug},
		Rule: "14 getters/checkers x value length 0..40 x 4 content classes (family 1 / family 2 / other / high byte) x position {only, first, middle, last} x capacity slack {0,1,2,3,4,8,64} x 4 surroundings fillers (padding, neighbours, spare capacity); messages decoded from exact allocations; oracle: no panic, twin rule (same value bytes => same outcome and value for every surrounding), Raw/Length/Attributes identical before and after; for integrity/fingerprint the covered prefix is held fixed and only what follows varies; variants distinct by construction (counted)",
		Assumptions: []string{goAssume, "value content beyond the first two bytes is one fixed pattern; the length/position/capacity structure is enumerated exhaustively"}},
	"C16": {Level: "exploration", Builds: []build{bPlain},
		Rule: "every string over the 20-symbol alphabet up to the length bound after each of 7 prefixes (stun: stuns: turn: turns: none STUN: stun://) plus a deterministic long family (1e5 repetitions of each symbol, nested brackets, long ports/queries); each parsed in a child process with a 16 MB stack cap and an 8 s per-string hang watchdog, crashing batches bisected to one string; distinct = number of distinct enumeration indices parsed (index -> string is a bijection)",
		Assumptions: []string{goAssume, "a fatal stack overflow at 16 MB stands for unbounded recursion; time bound = 8 s per string"}},
	"C17": {Level: "exploration", Builds: []build{bPlain},
		Rule: "grammar product 8 schemes x 10 hosts x 15 ports x 15 queries, expectation derived from the generated components; plus every string of the C16 alphabet up to the length bound checked for the accepted-URI invariants and the String/ParseURI round trip; plus DialURI for all 5x3 (scheme,transport) values x 3 hosts on a recording transport.Net (network, address, first record on the wire, SNI); distinct = distinct strings / dial configurations",
		Assumptions: []string{goAssume, "DTLS/TLS ClientHello recognised by record type 0x16 and version bytes; SNI located by its length-prefixed encoding", "ambiguous corners (upper-case scheme, '+5', leading zeros, bare '?', repeated or valueless transport key) assert only 'if accepted then sound'"}},
	"C19": {Level: "exploration", Builds: []build{bPlain}, Shards: 4,
		Rule:        "complete domain: all 4096x4 (method,class) pairs through Value/SetType and all 65536 wire words through ReadValue/Decode, each compared with a bit-by-bit reference built from RFC 5389 figure 3; every case is distinct by construction and counted through a hash set",
		Assumptions: []string{goAssume}},
}
