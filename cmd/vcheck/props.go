package main

var goAssume = "go1.23.5 linux/amd64; library built from /repo's working tree through go build -overlay"

var props = map[string]propMeta{
	"C19": {Level: "exploration", Builds: []build{bPlain}, Shards: 4,
		Rule: "complete domain: all 4096x4 (method,class) pairs through Value/SetType and all 65536 wire words through ReadValue/Decode, each compared with a bit-by-bit reference built from RFC 5389 figure 3; every case is distinct by construction and counted through a hash set",
		Assumptions: []string{goAssume}},
}
