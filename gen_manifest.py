#!/usr/bin/env python3
"""Regenerates MANIFEST.json from the table below (kept in one place so the
manifest stays valid while checks are added)."""
import json

claimed = {
 "C20": dict(level="exploration", engine="I",
   text="bounded-exhaustive enumeration of message shapes (every list of <=2/4 attribute kinds (16 kinds) x 7 integrity/fingerprint endings, plus 16-fold repetitions up to 12 KB), release and debug builds, plus the HMAC pool with 1..64 instances held at once; every hot-path operation is measured with testing.AllocsPerRun in a dedicated GOMAXPROCS(1), GC-off process under two warm-up regimes; a non-zero reading must repeat 5 times before it counts",
   note="measurement oracle tied to go1.23.5's escape analysis; one known finding (MessageIntegrity.Check needs 20 bytes of spare capacity) in KNOWN_FINDINGS.txt; in the debug build a failing integrity check returns an allocated error value by design and is not measured",
   technique="bounded exhaustive enumeration of message shapes with a measurement oracle", ref="DESIGN.md section 2 C20"),
 "C10": dict(level="model_checking", engine="H+S",
   text="stateless model checking of the real Client on the rewritten library: every event history up to depth 4/5 (each event run to quiescence, all free thread choices, two epilogues; also from a non-initial state and with 99..250 transactions) and 11 concurrent scenarios explored over every interleaving within preemption bound 2/3 plus environment deviations (pool object choice, map order); exactly-once, argument class, Start-error-implies-no-handler, Do-returns-after-handler and deadlock freedom are evaluated on every execution",
   note="tickerCollector, real sockets and real time are replaced by injected doubles; responses obey causality; mutex release is not a scheduling point; races inside one step are invisible to the cooperative scheduler (see the -race pass); bounds: history depth, preemption bound, 2 environment deviations; 3 transaction ids",
   technique="stateless model checking of the implementation: controlled scheduler + preemption-bounded DFS over all interleavings and environment answers", ref="DESIGN.md section 2 C10"),
 "C11": dict(level="model_checking", engine="H+S",
   text="every history up to depth 5/6 over Start / caller reuse / SetRTO / ticks at, just after and far beyond each deadline / response / write fault / Close on a virtual clock, for several RTOs and with/without retransmission, full-retransmission histories for request sizes 20..65532 bytes, five concurrent scenarios (incl. a large re-transmission racing the recycling of its transaction object), requests whose fields are out of step with Raw; each write is compared byte for byte with the snapshot taken at Start and timed against the deadlines",
   note="tickerCollector, real sockets and real time are replaced by injected doubles; responses obey causality; mutex release is not a scheduling point; races inside one step are invisible to the cooperative scheduler (see the -race pass); attempt limits other than 0 and 7 are not reachable through the public API and are not explored",
   technique="explicit-state enumeration of event histories on the real client under a controlled scheduler and virtual clock", ref="DESIGN.md section 2 C11"),
 "C12": dict(level="model_checking", engine="H+S",
   text="every history up to depth 4/5 over three one-bit-apart ids, responses/duplicates, unknown ids and four kinds of undecodable datagrams with pool Get branching over recycled objects, with and without fallback handler; six concurrent scenarios incl. probe transactions on recycled objects and a response that arrives while Start is still running; one 2000-transaction history; every handler invocation is checked for id, for a Message that is the decode of exactly a delivered datagram (fields and attributes), for delivery to the in-flight transaction (in flight from the moment the request is on the wire) and for single consumption; undecodable datagrams must have no effect at all",
   note="tickerCollector, real sockets and real time are replaced by injected doubles; responses obey causality; mutex release is not a scheduling point; races inside one step are invisible to the cooperative scheduler (see the -race pass); 500 concurrent transactions and random ids are not attempted; one known finding (a response processed while its transaction is between a time-out and the re-transmission goes to the fallback handler) is listed in KNOWN_FINDINGS.txt",
   technique="stateless model checking of the implementation with environment-choice exploration (pool recycling) under a controlled scheduler", ref="DESIGN.md section 2 C12"),
 "C15": dict(level="model_checking", engine="H+S",
   text="15 option sets (incl. handlers that call back into the client, Close errors with a meaningful identity and a connection Close that times out) x every history up to depth 4/5 ending in one or several Close calls, 9 concurrent Close scenarios x 5 option sets and 4 scenarios on a transport with blocking writes over every interleaving within preemption bound 2/3; Close result, goroutine exit, collector/connection close counts, silence after Close and ErrClientClosed from later calls are evaluated on every execution; deadlock = no enabled thread",
   note="tickerCollector, real sockets and real time are replaced by injected doubles; responses obey causality; mutex release is not a scheduling point; races inside one step are invisible to the cooperative scheduler (see the -race pass); the data-race clause is covered only by the free-running -race pass over the same scenario bodies (sampled schedules, reported separately)",
   technique="stateless model checking of the implementation: controlled scheduler + preemption-bounded DFS", ref="DESIGN.md section 2 C15"),
 "C14": dict(level="model_checking", engine="S",
   text="all programs of 2 threads x <=2 operations and 3 threads x 1 operation over 7 agent operations x 3 initial tables x 3 handler re-entrancy modes, an extended 3-operation family with overlapping and re-entrant Collects, and Collect over 104 expired transactions against Stop/Close/Start, every interleaving (preemption bound 3 quick, unbounded thorough) on the real Agent; each recorded history is checked for linearizability against the transaction-table model by brute force, and for deadlock",
   note="mutex release is not a scheduling point; the data-race clause is covered only by the free-running -race pass (sampled schedules); 2..16 goroutines of the quantifier are covered up to 3",
   technique="stateless model checking of the implementation + brute-force linearizability checking of every explored history", ref="DESIGN.md section 2 C14"),
 "C18": dict(level="model_checking", engine="H+S",
   text="on the rewritten library with a model pool whose Get branches over every pooled object and a miss: all reuse histories use;put;use[;put;use] over 6 key lengths x all scripts of <=2/3 operations, all free histories to depth 5/6 over two live objects, and 2-3 concurrent pool users over every interleaving within the preemption bound; every Sum is compared with RFC 2104 written out over the hash function; on the real sync.Pool (free-running build, one goroutine): one instance in use while 1..300 other keys pass through the pool, one key through both pools",
   note="messages up to a few hundred bytes in chunks of 0/1/63/65; 4096-byte messages and random chunkings are not attempted; races inside one call are invisible to the cooperative scheduler",
   technique="explicit-state enumeration of reuse histories with environment-choice exploration (pool object selection) and preemption-bounded DFS", ref="DESIGN.md section 2 C18"),
 "C03": dict(level="model_checking", engine="H",
   text="explicit enumeration of every building-operation history up to depth 4 (quick) / 5 (thorough) over a 37-operation alphabet from 25 start states, each executed on a real Message and checked against the reference parser/encoder after its last step (all shorter histories are enumerated too, so every intermediate state is checked); the coherence of the three length representations is a property of histories, which is exactly what is enumerated",
   note="attribute values come from fixed patterns; sizes stay within the 16-bit length field by construction (the property's precondition); plus Add of every length 0..3000 and the size boundary",
   technique="explicit-state enumeration of operation histories on the real object against a reference model", ref="DESIGN.md section 2 C03"),
 "C08": dict(level="model_checking", engine="H",
   text="every history of up to 3 (quick) / 4 (thorough) uses of one Message over 96 uses (7 decode entry points incl. a segmented stream and a zero-length datagram x 12 messages, 12 Build lists), with retained storage and caller inputs poisoned between uses; differential oracle: the last use on the reused Message must equal the same use on a fresh Message with the same Type/TransactionID, byte for byte and field for field",
   note="message family of 12 (sizes 20..1225 bytes); poison bytes 0xD7/0xFF/0x01/seed",
   technique="explicit-state enumeration of use histories with a differential (fresh twin) oracle", ref="DESIGN.md section 2 C08"),
 "C13": dict(level="model_checking", engine="H",
   text="breadth-first search over the real Agent to a fixed point of (model state, full private state dump): all reachable states of the 3-id table with 7 deadline values x handler, every one of the 43 operations from every state, each compared (return value, event multiset, handler identity, message pointer) with the transaction-table model; plus all operation sequences of depth 4/5 without merging, the same at depth 3/4 with handlers that call back into the agent or panic, 0..300 and, on a ladder, up to 100000 transactions at one Collect, and Collect nested in a timeout handler",
   note="complete for the stated alphabet; long random sequences over many ids are not attempted",
   technique="explicit-state model checking of the implementation against a reference model (BFS to fixed point, replay-to-reach)", ref="DESIGN.md section 2 C13"),
 "C04": dict(level="exploration", engine="I",
   text="bounded-exhaustive product of message shapes around the MAC (attributes before/after with every padding residue, second MAC, FINGERPRINT), key lengths on both sides of the 64-byte block, MAC variants and every single-bit flip; on every decodable input the verdict of MessageIntegrity.Check must equal an independent RFC 2104/5389 oracle and AddTo must append exactly the oracle's value; release and debug",
   note="attribute value lengths 0..5 (every residue mod 4); <=2 attributes before / <=2 after plus one 8/4 chain; the quantifier's 0..8 / 0..4 attribute counts are covered only by the chain",
   technique="bounded exhaustive enumeration of message shapes, keys and bit flips against a reference HMAC", ref="DESIGN.md section 2 C04"),
 "C05": dict(level="exploration", engine="I",
   text="every fingerprinted message of the enumerated shapes is corrupted in every single bit and in every burst up to 8/12 bits with every interior pattern (longer bursts: 6 patterns); Fingerprint.Check must equal a bit-at-a-time CRC-32 oracle on every decodable input and must never pass a corruption that leaves FINGERPRINT the only such attribute; AddTo bytes equal the oracle",
   note="bursts of 13..32 bits are covered with a pattern family only; message bodies <= 2 attributes + optional MESSAGE-INTEGRITY",
   technique="bounded exhaustive enumeration of corruptions against a reference CRC", ref="DESIGN.md section 2 C05"),
 "C09": dict(level="exploration", engine="I",
   text="every setter on every value length / code on both sides of each limit x 9 preceding message contents, release and debug; acceptance, error class and snapshot-equality-on-error are checked on each; Build is checked against Build of the prefix before the first failing setter for every list of <=3 menu setters",
   note="the accepted ErrorCode set is written out in the harness (17 exported constants)",
   technique="exhaustive enumeration of the (small, complete) value domains against a stated acceptance rule", ref="DESIGN.md section 2 C09"),
 "C06": dict(level="exploration", engine="I",
   text="complete enumeration of the small value domains (all ports, all error codes 300..699, all text lengths up to the limit, every 16-bit type, list lengths 0..64) and per-byte-complete enumeration of address/transaction-ID bytes, each checked against independent RFC 5389 s15 encoders and decoders in both directions",
   note="address space is covered one byte position at a time (complete because XOR and copy are bytewise), not as a 2^128 product; trusts /verif/ref/attrs.go",
   technique="bounded exhaustive enumeration of value domains, differential against reference encoder/decoder", ref="DESIGN.md section 2 C06"),
 "C07": dict(level="exploration", engine="I",
   text="every getter/checker on every value length 0..40 x content class x position x capacity slack x surroundings, on messages decoded from exact allocations, release and debug; twin rule decides locality (same value => same outcome whatever surrounds it), snapshot comparison decides side-effect freedom, recovered panics decide totality",
   note="value content is one pattern per class; for integrity/fingerprint the covered prefix is fixed and only uncovered bytes vary",
   technique="bounded exhaustive enumeration of input shapes and buffer configurations with a metamorphic (twin) oracle", ref="DESIGN.md section 2 C07"),
 "C16": dict(level="exploration", engine="I",
   text="every string over the property's 20-symbol alphabet up to length 5 (quick) / 7 (thorough) after each of 7 prefixes, plus a long family, a medium family (8..4096 repetitions of one symbol of 1..4 bytes in eight positions, also after unrelated library activity in the same process), a slot family, every IPv6 literal shape over four group values, and 24 constant (read-only) URIs, is parsed in isolated child processes with a capped stack and a hang watchdog; a crashing batch is bisected to one string. Exhaustive below the length bound, which is where the recursion defect lives (shortest witness has 3 symbols)",
   note="stack cap 16 MB stands for 'unbounded'; 8 s per string stands for 'time bounded by input length'; random / grammar-mutated tails not attempted",
   technique="bounded exhaustive enumeration of all strings over a finite alphabet, process-isolated execution", ref="DESIGN.md section 2 C16"),
 "C17": dict(level="exploration", engine="I",
   text="grammar product of URI components with an oracle computed from the components; accepted-URI invariants and String/ParseURI round trip on every string of the C16 space; DialURI on an injected recording network for all 5x3 scheme/transport values (network, address, first record on the wire is a TLS/DTLS ClientHello with SNI for secure schemes, ErrUnsupportedURI and zero dials otherwise)",
   note="one known finding (bracketed host starting with '/' does not round-trip) is listed in KNOWN_FINDINGS.txt; DTLS/TLS detection by record header bytes",
   technique="bounded exhaustive enumeration of inputs and configurations against a component-level reference", ref="DESIGN.md section 2 C17"),
 "C01": dict(level="exploration", engine="I",
   text="bounded-exhaustive enumeration of length structures (attribute-length sequences x declared length x buffer length up to a body bound), tiny-alphabet bodies and the 65535-byte family, through all 7 decoding entry points x buffer capacities x fresh/used Message (also one from stun.New() between two others) x release/debug; every call is checked for panic, hang, allocation bound and, on success, pointer-exact value views. Exhaustive over the length/offset logic that every decoder branch depends on; byte content is from fixed fillers",
   note="bounds: body <= 20/28 bytes for the full product (quick/thorough); allocation clause uses 64n+4096; random / coverage-guided tails of the quantifier are not attempted",
   technique="bounded exhaustive enumeration of input shapes against an oracle (explicit finite domain, sharded, no sampling)", ref="DESIGN.md section 2 C01"),
 "C02": dict(level="exploration", engine="I",
   text="the same enumerated input space is decoded by the library and by an independent RFC 5389 parser; verdict, class, method, length, transaction ID and the ordered TLV list must agree on every input, and Get/Contains/ForEach (incl. failing callbacks at every visit index) are checked on every accepted message",
   note="bounds: body <= 24/32 bytes; all 65536 type words; trusts the reference parser in /verif/ref/stunwire.go",
   technique="bounded exhaustive enumeration of input shapes, differential against a reference parser", ref="DESIGN.md section 2 C02"),
 "C19": dict(level="exploration", engine="I",
   text="complete-domain enumeration: every (method,class) pair and every 16-bit wire word is checked against a bit-by-bit reference from RFC 5389 figure 3; the domain is finite and fully covered, so the run decides the property",
   note="trusts the hand-written reference layout table and the Go toolchain",
   technique="exhaustive enumeration of the complete finite domain against a reference model", ref="DESIGN.md section 2 C19"),
}

pending = {}

def main():
    props = [json.loads(l)["id"] for l in open("/verif/properties.jsonl")]
    checks = []
    for pid in props:
        if pid not in claimed:
            continue
        c = claimed[pid]
        checks.append({
            "property_id": pid,
            "quick_cmd": f"./bin/vcheck {pid} --tier quick",
            "thorough_cmd": f"./bin/vcheck {pid} --tier thorough",
            "evidence_file": f"/verif/evidence/{pid}.json",
            "replay_cmd_template": f"./bin/vcheck {pid} --replay {{path}}",
            "engine": c["engine"],
            "level_claimed": {"category": c["level"], "text": c["text"], "design_ref": c["ref"]},
            "level_note": c["note"],
            "technique": c["technique"],
        })
    na = [{"property_id": p, "reason": pending.get(p, "check not built yet in this session (work in progress; see DESIGN.md section 8 for the order)")} for p in props if p not in claimed]
    m = {
        "version": 1,
        "setup_cmd": "bash /verif/setup.sh",
        "hooks": {
            "guard": "verif",
            "enable": "no source hooks: vcheck generates a `go build -overlay` file from /repo's working tree (virtual packages github.com/pion/stun/v3/zzverif/*, and for scheduler builds AST-rewritten copies of files importing sync, sync/atomic, runtime) and builds the worker with -tags verif",
            "baseline_off_cmd": "cd /repo && go test -mod=mod -vet=off -count=1 ./...",
            "source_commits": [],
            "add_only": True,
        },
        "engines": [
            {"name": "I", "path": "/verif/worker", "serves_properties": [p for p in props if claimed.get(p, {}).get("engine") == "I"], "kind_free_text": "sharded exhaustive enumeration of explicit finite input domains against reference models"},
            {"name": "H", "path": "/verif/worker", "serves_properties": [p for p in props if "H" in claimed.get(p, {}).get("engine", "")], "kind_free_text": "explicit-state search over operation histories executed on real objects, compared with Go reference models"},
            {"name": "S", "path": "/verif/mc/_shim/sched", "serves_properties": [p for p in props if "S" in claimed.get(p, {}).get("engine", "")], "kind_free_text": "controlled cooperative scheduler + preemption-bounded DFS over the rewritten library"},
        ],
        "checks": checks,
        "not_applicable": na,
        "notes": "All checks go through /verif/bin/vcheck (built by setup_cmd). Exit 0 held, 1 VIOLATION, 2 harness error. Known findings: /verif/KNOWN_FINDINGS.txt. Before any scheduler-based verdict the scheduler and explorer pass a self-test in the freshly built worker (26 programs with known interleaving sets, deadlock, lost wake-up, livelock, pool/map answers, a thread blocked outside the scheduler, replay); in the plain and debug builds every 64th case is preceded by unrelated library activity (history independence); free-running -race side passes are sampled and reported separately as sum_race_pass_iterations (DESIGN.md 9.5, 9.7).",
    }
    json.dump(m, open("/verif/MANIFEST.json", "w"), indent=1)
    print("claimed", len(checks), "not_applicable", len(na))

main()
