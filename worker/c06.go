package main

import (
	"bytes"
	"encoding/json"
	"fmt"
	"net"

	stun "github.com/pion/stun/v3"

	"verif/ref"
)

// C06: typed attributes round-trip and use the RFC wire formats.

type c06Case struct {
	Kind   string   `json:"kind"` // xor | mapped | text | errcode | unknown
	Attr   uint16   `json:"attr"` // attribute type (xor: AddToAs type; mapped: which of the 4; text: which)
	IP     []byte   `json:"ip,omitempty"`
	Port   int      `json:"port,omitempty"`
	TID    []byte   `json:"tid,omitempty"`
	Len    int      `json:"len,omitempty"`
	Code   int      `json:"code,omitempty"`
	Types  []uint16 `json:"types,omitempty"`
	Filler byte     `json:"filler,omitempty"`
	// text: first and last byte of the value (a value that looks quoted, bracketed, padded or terminated), 0,0 = none
	First byte `json:"first,omitempty"`
	Last  byte `json:"last,omitempty"`
	Edged bool `json:"edged,omitempty"`
	// Pre: an encoding of a DIFFERENT attribute into another message that happens first (1 UNKNOWN-ATTRIBUTES,
	// 2 ERROR-CODE, 3 text, 4 XOR address); the case's bytes must not depend on it.
	Pre int `json:"pre,omitempty"`
	// Reuse: the Message was used for a larger message, Reset, and the attribute is added BEFORE WriteHeader
	// (the idiom of the library's own benchmarks): Raw and Length are out of step while the setter runs
	Reuse bool `json:"reuse,omitempty"`
	// Cap: the caller supplies the storage: Raw has capacity 20+4+len(value)+Cap-1, which ends inside or right behind
	// the attribute's padding (0 = the library allocates)
	Cap int `json:"cap,omitempty"`
}

func c06Pre(pre int) {
	if pre == 0 {
		return
	}
	s := new(stun.Message)
	s.TransactionID = [12]byte{0xFF, 0xFF, 0xFF, 0xFF, 0xFF, 0xFF, 0xFF, 0xFF, 0xFF, 0xFF, 0xFF, 0xFF}
	s.WriteHeader()
	ff := bytes.Repeat([]byte{0xFF}, 763)
	switch pre {
	case 1:
		l := make(stun.UnknownAttributes, 20)
		for i := range l {
			l[i] = stun.AttrType(0xFFFF - i)
		}
		_ = l.AddTo(s)
	case 2:
		_ = stun.ErrorCodeAttribute{Code: 699, Reason: ff}.AddTo(s)
	case 3:
		_ = stun.Software(ff).AddTo(s)
		_ = stun.Username(ff[:513]).AddTo(s)
	case 4:
		_ = (&stun.XORMappedAddress{IP: net.IP(ff[:16]), Port: 0xFFFF}).AddTo(s)
		_ = (&stun.MappedAddress{IP: net.IP(ff[:16]), Port: 0xFFFF}).AddTo(s)
	}
}

func tid12(b []byte) (t [12]byte) { copy(t[:], b); return }

// canonIP is the value the property expects back: IPv4-mapped IPv6 collapses to IPv4.
func canonIP(ip []byte) []byte {
	if len(ip) == 16 {
		z := true
		for i := 0; i < 10; i++ {
			if ip[i] != 0 {
				z = false
			}
		}
		if z && ip[10] == 0xff && ip[11] == 0xff {
			return ip[12:16]
		}
	}
	return ip
}

// decodeCopy decodes raw the way a receiver does. Which way is a function of the bytes (so that a replay takes the same
// one): a copy at exact capacity decoded in place, or one of the copying entry points fed from a read buffer that the
// caller fills with the next datagram (here: 0x5A) as soon as the call returns - into a Message without storage.
func decodeCopy(raw []byte) (*stun.Message, error) {
	way := 0
	for _, b := range raw {
		way += int(b)
	}
	buf := exactSlice(raw, 0)
	m := new(stun.Message)
	var err error
	switch way % 5 {
	case 0, 1:
		m.Raw = buf
		return m, m.Decode()
	case 2:
		err = stun.Decode(buf, m)
	case 3:
		_, err = m.Write(buf)
	case 4:
		err = m.UnmarshalBinary(buf)
	}
	for i := range buf {
		buf[i] = 0x5A
	}
	return m, err
}

func c06Check(k c06Case) (key, detail string) {
	p := catch(func() { key, detail = c06Check1(k) })
	if p != "" {
		return "panic/" + k.Kind, fmt.Sprintf("%s on %+v", p, k)
	}
	return
}

// c06Reuse decodes a sequence of messages into the SAME destination value (the zero-allocation design
// reuses the destination's storage): every result must still be the value the message carries.
func c06Reuse(k c06Case) (string, string) {
	tid := tid12(k.TID)
	addrs := []ref.Addr{
		{IP: []byte{10, 0, 0, 1}, Port: 1111},
		{IP: net.ParseIP("2001:db8::aa"), Port: 2222},
		{IP: []byte{192, 0, 2, 33}, Port: 3333},
		{IP: net.ParseIP("fe80::1"), Port: 4444},
	}
	// k.N encodes the order: a permutation index over 3 decodes
	orders := [][]int{{1, 0, 3}, {0, 1, 2}, {1, 2, 0}, {3, 1, 0}, {0, 2, 1}, {1, 3, 1}}
	order := orders[k.Len%len(orders)]
	at := k.Attr
	var xa stun.XORMappedAddress
	var ma stun.MappedAddress
	var as stun.AlternateServer
	var ro stun.ResponseOrigin
	var oa stun.OtherAddress
	for step, ai := range order {
		a := addrs[ai]
		var val []byte
		if k.Kind == "reuse-xor" {
			val = ref.EncodeXORMappedAddress(a, tid)
		} else {
			val = ref.EncodeMappedAddress(a)
		}
		d, derr := decodeCopy(ref.Encode(ref.TypeWord(1, 2), tid, []ref.EncodeAttr{{Type: at, Value: val}}))
		if derr != nil {
			return "reuse-redecode", derr.Error()
		}
		var gotIP net.IP
		var gotPort int
		var gerr error
		switch {
		case k.Kind == "reuse-xor" && at == 0x0020:
			gerr = xa.GetFrom(d)
			gotIP, gotPort = xa.IP, xa.Port
		case k.Kind == "reuse-xor":
			gerr = xa.GetFromAs(d, stun.AttrType(at))
			gotIP, gotPort = xa.IP, xa.Port
		case at == 0x0001:
			gerr = ma.GetFrom(d)
			gotIP, gotPort = ma.IP, ma.Port
		case at == 0x8023:
			gerr = as.GetFrom(d)
			gotIP, gotPort = as.IP, as.Port
		case at == 0x802b:
			gerr = ro.GetFrom(d)
			gotIP, gotPort = ro.IP, ro.Port
		case at == 0x802c:
			gerr = oa.GetFrom(d)
			gotIP, gotPort = oa.IP, oa.Port
		}
		if gerr != nil || gotPort != a.Port || !bytes.Equal(gotIP, a.IP) {
			return "reused-destination/" + k.Kind, fmt.Sprintf("decode %d of %v into one reused destination (attr %#x): got %v:%d err %v, message carries %v:%d", step+1, order, at, gotIP, gotPort, gerr, net.IP(a.IP), a.Port)
		}
	}
	// UNKNOWN-ATTRIBUTES and ERROR-CODE into reused destinations: long then short
	var ua stun.UnknownAttributes
	for _, n := range []int{5, 2, 0, 7, 1} {
		ts := make([]uint16, n)
		for i := range ts {
			ts[i] = uint16(0x8000 + n*16 + i)
		}
		d, _ := decodeCopy(ref.Encode(ref.TypeWord(1, 3), tid, []ref.EncodeAttr{{Type: 0x000A, Value: ref.EncodeUnknownAttributes(ts)}}))
		if err := ua.GetFrom(d); err != nil || len(ua) != n {
			return "reused-destination/unknown", fmt.Sprintf("UNKNOWN-ATTRIBUTES with %d entries into a reused destination: %d entries, err %v", n, len(ua), err)
		}
		for i := range ts {
			if uint16(ua[i]) != ts[i] {
				return "reused-destination/unknown", fmt.Sprintf("entry %d is %#x want %#x", i, uint16(ua[i]), ts[i])
			}
		}
	}
	var ec stun.ErrorCodeAttribute
	for _, cr := range []struct {
		c int
		r string
	}{{438, "Stale Nonce, rather long reason"}, {401, ""}, {699, "x"}} {
		d, _ := decodeCopy(ref.Encode(ref.TypeWord(1, 3), tid, []ref.EncodeAttr{{Type: 0x0009, Value: ref.EncodeErrorCode(cr.c, []byte(cr.r))}}))
		if err := ec.GetFrom(d); err != nil || int(ec.Code) != cr.c || string(ec.Reason) != cr.r {
			return "reused-destination/errcode", fmt.Sprintf("ERROR-CODE %d %q into a reused destination: %d %q err %v", cr.c, cr.r, ec.Code, ec.Reason, err)
		}
	}
	return "", ""
}

// c06Finish writes the header after the setter when the attribute was added to a Reset message first.
func c06Finish(m *stun.Message, k c06Case) {
	if k.Reuse {
		m.WriteHeader()
	}
}

func c06Check1(k c06Case) (string, string) {
	if k.Kind == "reuse-xor" || k.Kind == "reuse-mapped" {
		return c06Reuse(k)
	}
	tid := tid12(k.TID)
	c06Pre(k.Pre)
	m := new(stun.Message)
	if k.Reuse {
		_ = m.Build(stun.BindingRequest, stun.NewTransactionIDSetter([12]byte{0xEE, 0xEE, 0xEE, 0xEE}), stun.Software(bytes.Repeat([]byte{0xEE}, 700)), stun.Realm(bytes.Repeat([]byte{0xEE}, 700)))
		m.Reset()
	}
	if k.Cap > 0 {
		vl := k.Len
		switch k.Kind {
		case "errcode":
			vl = 4 + k.Len
		case "unknown":
			vl = 2 * len(k.Types)
		}
		m.Raw = make([]byte, 0, 20+4+vl+k.Cap-1)
	}
	m.TransactionID = tid
	m.Type = stun.BindingSuccess
	if !k.Reuse {
		m.WriteHeader()
	}
	switch k.Kind {
	case "xor", "mapped":
		var err error
		var wantVal []byte
		at := stun.AttrType(k.Attr)
		wantIP := canonIP(k.IP)
		if k.Kind == "xor" {
			a := stun.XORMappedAddress{IP: net.IP(k.IP), Port: k.Port}
			if at == stun.AttrXORMappedAddress {
				err = a.AddTo(m)
			} else {
				err = a.AddToAs(m, at)
			}
			wantVal = ref.EncodeXORMappedAddress(ref.Addr{IP: wantIP, Port: k.Port}, tid)
		} else {
			switch at {
			case stun.AttrMappedAddress:
				err = (&stun.MappedAddress{IP: net.IP(k.IP), Port: k.Port}).AddTo(m)
			case stun.AttrAlternateServer:
				err = (&stun.AlternateServer{IP: net.IP(k.IP), Port: k.Port}).AddTo(m)
			case stun.AttrResponseOrigin:
				err = (&stun.ResponseOrigin{IP: net.IP(k.IP), Port: k.Port}).AddTo(m)
			case stun.AttrOtherAddress:
				err = (&stun.OtherAddress{IP: net.IP(k.IP), Port: k.Port}).AddTo(m)
			}
			wantVal = ref.EncodeMappedAddress(ref.Addr{IP: wantIP, Port: k.Port})
		}
		if err != nil {
			return k.Kind + "-addto-error", fmt.Sprintf("AddTo(%v:%d) as %#x: %v", net.IP(k.IP), k.Port, k.Attr, err)
		}
		c06Finish(m, k)
		// (ii) bytes written
		wantRaw := ref.Encode(ref.TypeWord(1, 2), tid, []ref.EncodeAttr{{Type: k.Attr, Value: wantVal}})
		if !bytes.Equal(m.Raw, wantRaw) {
			return k.Kind + "-wire-format", fmt.Sprintf("%v:%d tid %x as %#x wrote %x, RFC 5389 s15 prescribes %x", net.IP(k.IP), k.Port, k.TID, k.Attr, m.Raw[20:], wantRaw[20:])
		}
		// (i) round trip through Decode, and (iii) GetFrom on the reference encoding
		for _, src := range [][]byte{m.Raw, wantRaw} {
			d, derr := decodeCopy(src)
			if derr != nil {
				return k.Kind + "-redecode", fmt.Sprintf("message does not decode: %v", derr)
			}
			var gotIP net.IP
			var gotPort int
			var gerr error
			if k.Kind == "xor" {
				var g stun.XORMappedAddress
				if at == stun.AttrXORMappedAddress {
					gerr = g.GetFrom(d)
				} else {
					gerr = g.GetFromAs(d, at)
				}
				gotIP, gotPort = g.IP, g.Port
			} else {
				switch at {
				case stun.AttrMappedAddress:
					var g stun.MappedAddress
					gerr = g.GetFrom(d)
					gotIP, gotPort = g.IP, g.Port
				case stun.AttrAlternateServer:
					var g stun.AlternateServer
					gerr = g.GetFrom(d)
					gotIP, gotPort = g.IP, g.Port
				case stun.AttrResponseOrigin:
					var g stun.ResponseOrigin
					gerr = g.GetFrom(d)
					gotIP, gotPort = g.IP, g.Port
				case stun.AttrOtherAddress:
					var g stun.OtherAddress
					gerr = g.GetFrom(d)
					gotIP, gotPort = g.IP, g.Port
				}
			}
			if gerr != nil || gotPort != k.Port || !bytes.Equal(gotIP, wantIP) {
				return k.Kind + "-roundtrip", fmt.Sprintf("GetFrom after AddTo(%v:%d, tid %x, attr %#x) = %v:%d err %v", net.IP(k.IP), k.Port, k.TID, k.Attr, gotIP, gotPort, gerr)
			}
		}
		// (vi) the XOR pad is the message's transaction id, which is the struct field: a caller that assigned
		// m.TransactionID after the header was written (and writes the header again before sending) gets the same bytes,
		// and reads its address back from that very message in between
		if k.Kind == "xor" {
			h := new(stun.Message)
			h.TransactionID = [12]byte{0xEE, 0xEE, 0xEE, 0xEE, 0xEE, 0xEE, 0xEE, 0xEE, 0xEE, 0xEE, 0xEE, 0xEE}
			h.Type = stun.NewType(stun.Method(1), stun.MessageClass(2))
			h.WriteHeader()
			h.TransactionID = tid
			a := stun.XORMappedAddress{IP: net.IP(k.IP), Port: k.Port}
			if err := a.AddToAs(h, at); err != nil {
				return "xor-addto-error", err.Error()
			}
			var g stun.XORMappedAddress
			if gerr := g.GetFromAs(h, at); gerr != nil || g.Port != k.Port || !bytes.Equal(g.IP, wantIP) {
				return "xor-roundtrip/transaction-id-assigned-on-the-field", fmt.Sprintf("header written, m.TransactionID assigned (%x), AddToAs(%v:%d, %#x), GetFromAs on that message = %v:%d err %v", k.TID, net.IP(k.IP), k.Port, k.Attr, g.IP, g.Port, gerr)
			}
			h.WriteHeader()
			if !bytes.Equal(h.Raw, wantRaw) {
				return "xor-wire-format/transaction-id-assigned-on-the-field", fmt.Sprintf("header written, m.TransactionID assigned (%x), AddToAs(%v:%d, %#x), WriteHeader: %x, RFC 5389 s15 prescribes %x", k.TID, net.IP(k.IP), k.Port, k.Attr, h.Raw[20:], wantRaw[20:])
			}
		}
		// (v) the same read from inside a ForEach callback, and with other address-shaped attributes (the RFC 3489
		// ones included) carrying a different address in front of it: a getter reads ITS attribute of THIS message
		{
			decoyIP := []byte{198, 51, 100, 7}
			var attrs []ref.EncodeAttr
			for _, dt := range []uint16{0x0001, 0x0004, 0x0005, 0x0020, 0x0012, 0x8023, 0x802b, 0x802c} {
				if dt == k.Attr {
					continue
				}
				dv := ref.EncodeMappedAddress(ref.Addr{IP: decoyIP, Port: 9})
				if dt == 0x0020 || dt == 0x0012 {
					dv = ref.EncodeXORMappedAddress(ref.Addr{IP: decoyIP, Port: 9}, tid)
				}
				attrs = append(attrs, ref.EncodeAttr{Type: dt, Value: dv})
			}
			attrs = append(attrs, ref.EncodeAttr{Type: k.Attr, Value: wantVal})
			d, derr := decodeCopy(ref.Encode(ref.TypeWord(1, 2), tid, attrs))
			if derr != nil {
				return k.Kind + "-redecode", derr.Error()
			}
			read := func(mm *stun.Message) (net.IP, int, error) {
				if k.Kind == "xor" {
					var g stun.XORMappedAddress
					e := g.GetFromAs(mm, at)
					return g.IP, g.Port, e
				}
				switch at {
				case stun.AttrAlternateServer:
					var g stun.AlternateServer
					e := g.GetFrom(mm)
					return g.IP, g.Port, e
				case stun.AttrResponseOrigin:
					var g stun.ResponseOrigin
					e := g.GetFrom(mm)
					return g.IP, g.Port, e
				case stun.AttrOtherAddress:
					var g stun.OtherAddress
					e := g.GetFrom(mm)
					return g.IP, g.Port, e
				}
				var g stun.MappedAddress
				e := g.GetFrom(mm)
				return g.IP, g.Port, e
			}
			if ip, port, e := read(d); e != nil || port != k.Port || !bytes.Equal(ip, wantIP) {
				return k.Kind + "-roundtrip/other-address-attributes-in-front", fmt.Sprintf("attr %#x behind other address attributes: read %v:%d err %v, the message carries %v:%d", k.Attr, ip, port, e, net.IP(wantIP), k.Port)
			}
			visited := false
			var fip net.IP
			var fport int
			var ferr error
			_ = d.ForEach(at, func(mm *stun.Message) error {
				if !visited {
					visited = true
					fip, fport, ferr = read(mm)
				}
				return nil
			})
			if !visited || ferr != nil || fport != k.Port || !bytes.Equal(fip, wantIP) {
				return k.Kind + "-roundtrip/inside-ForEach", fmt.Sprintf("attr %#x read from inside a ForEach callback: %v:%d err %v (visited %v), the message carries %v:%d (tid %x)", k.Attr, fip, fport, ferr, visited, net.IP(wantIP), k.Port, k.TID)
			}
			// the attribute twice (the address, then another one), a ForEach whose callback fails at the second visit:
			// the getter still reads the first, and the attribute list is as it was
			{
				var second []byte
				if k.Kind == "xor" {
					second = ref.EncodeXORMappedAddress(ref.Addr{IP: decoyIP, Port: 7}, tid)
				} else {
					second = ref.EncodeMappedAddress(ref.Addr{IP: decoyIP, Port: 7})
				}
				two := ref.Encode(ref.TypeWord(1, 2), tid, []ref.EncodeAttr{{Type: 0x8022, Value: []byte("sw")}, {Type: k.Attr, Value: wantVal}, {Type: k.Attr, Value: second}})
				d2, derr := decodeCopy(two)
				if derr != nil {
					return k.Kind + "-redecode", derr.Error()
				}
				before := fmt.Sprint(d2.Attributes)
				visits := 0
				_ = d2.ForEach(at, func(*stun.Message) error {
					visits++
					if visits == 2 {
						return errC02Stop
					}
					return nil
				})
				if ip, port, e := read(d2); e != nil || port != k.Port || !bytes.Equal(ip, wantIP) || fmt.Sprint(d2.Attributes) != before {
					return k.Kind + "-roundtrip/after-a-failing-ForEach", fmt.Sprintf("attr %#x twice in a message, ForEach whose callback failed at the second visit (%d visits): the getter then reads %v:%d err %v, the first one carries %v:%d; attribute list unchanged: %v", k.Attr, visits, ip, port, e, net.IP(wantIP), k.Port, fmt.Sprint(d2.Attributes) == before)
				}
			}
		}
		// (iv) the reference decoder reads the library's bytes
		v, _ := m.Get(at)
		var ra ref.Addr
		var rerr error
		if k.Kind == "xor" {
			ra, rerr = ref.DecodeXORMappedAddress(v, tid)
		} else {
			ra, rerr = ref.DecodeMappedAddress(v)
		}
		if rerr != nil || ra.Port != k.Port || !bytes.Equal(ra.IP, wantIP) {
			return k.Kind + "-ref-decode", fmt.Sprintf("reference decoder reads %x as %v:%d err %v, want %v:%d", v, net.IP(ra.IP), ra.Port, rerr, net.IP(wantIP), k.Port)
		}
	case "text":
		val := make([]byte, k.Len)
		for i := range val {
			val[i] = k.Filler + byte(i*31)
		}
		if k.Edged && len(val) > 0 {
			val[0], val[len(val)-1] = k.First, k.Last
		}
		at := stun.AttrType(k.Attr)
		var err error
		switch at {
		case stun.AttrUsername:
			err = stun.Username(val).AddTo(m)
		case stun.AttrRealm:
			err = stun.Realm(val).AddTo(m)
		case stun.AttrNonce:
			err = stun.Nonce(val).AddTo(m)
		case stun.AttrSoftware:
			err = stun.Software(val).AddTo(m)
		}
		if err != nil {
			return "text-rejected-within-limit", fmt.Sprintf("%v of %d bytes rejected: %v", at, k.Len, err)
		}
		c06Finish(m, k)
		wantRaw := ref.Encode(ref.TypeWord(1, 2), tid, []ref.EncodeAttr{{Type: k.Attr, Value: val}})
		if !bytes.Equal(m.Raw, wantRaw) {
			return "text-wire-format", fmt.Sprintf("%v of %d bytes: wire bytes differ from the RFC encoding", at, k.Len)
		}
		val0 := append([]byte(nil), val...)
		for i := range val {
			val[i] = 0xEE // caller reuses its buffer
		}
		for _, src := range [][]byte{m.Raw, wantRaw} {
			d, derr := decodeCopy(src)
			if derr != nil {
				return "text-redecode", derr.Error()
			}
			var got []byte
			var gerr error
			switch at {
			case stun.AttrUsername:
				var g stun.Username
				gerr = g.GetFrom(d)
				got = g
			case stun.AttrRealm:
				var g stun.Realm
				gerr = g.GetFrom(d)
				got = g
			case stun.AttrNonce:
				var g stun.Nonce
				gerr = g.GetFrom(d)
				got = g
			case stun.AttrSoftware:
				var g stun.Software
				gerr = g.GetFrom(d)
				got = g
			}
			if gerr != nil || !bytes.Equal(got, val0) {
				return "text-roundtrip", fmt.Sprintf("%v of %d bytes read back as %d bytes err %v", at, k.Len, len(got), gerr)
			}
		}
		// one scratch destination, reset to length 0 between reads (the documented reuse pattern), across two
		// attributes of one message and then a second message: values right, no decoded message written to
		{
			other := []byte("a-different-value-of-another-attribute")
			ot := uint16(0x0014)
			if k.Attr == 0x0014 {
				ot = 0x8022
			}
			two := ref.Encode(ref.TypeWord(1, 2), tid, []ref.EncodeAttr{{Type: ot, Value: other}, {Type: k.Attr, Value: val0}})
			d1, e1 := decodeCopy(two)
			d2, e2 := decodeCopy(wantRaw)
			if e1 != nil || e2 != nil {
				return "text-redecode", fmt.Sprint(e1, e2)
			}
			var g stun.TextAttribute
			if err := g.GetFromAs(d1, stun.AttrType(ot)); err != nil || !bytes.Equal(g, other) {
				return "text-roundtrip", fmt.Sprintf("generic getter: %q err %v", g, err)
			}
			g = g[:0]
			if err := g.GetFromAs(d1, at); err != nil || !bytes.Equal(g, val0) {
				return "text-reset-destination", fmt.Sprintf("%v of %d bytes into a reset ([:0]) destination: %d bytes err %v", at, k.Len, len(g), err)
			}
			if !bytes.Equal(d1.Raw, two) {
				return "text-reset-destination", fmt.Sprintf("reading %v (%d bytes) into a reset ([:0]) destination wrote into the decoded message", at, k.Len)
			}
			g = g[:0]
			if err := g.GetFromAs(d2, at); err != nil || !bytes.Equal(g, val0) {
				return "text-reset-destination", fmt.Sprintf("%v of %d bytes from a second message into a reset destination: %d bytes err %v", at, k.Len, len(g), err)
			}
			if !bytes.Equal(d1.Raw, two) || !bytes.Equal(d2.Raw, wantRaw) {
				return "text-reset-destination", fmt.Sprintf("reading %v (%d bytes) from a second message into a reset destination wrote into a decoded message", at, k.Len)
			}
			var f stun.TextAttribute
			if err := f.GetFromAs(d1, stun.AttrType(ot)); err != nil || !bytes.Equal(f, other) {
				return "text-reset-destination", fmt.Sprintf("the other attribute now reads %q err %v", f, err)
			}
		}
	case "errcode":
		reason := make([]byte, k.Len)
		for i := range reason {
			reason[i] = 'a' + byte(i%26)
		}
		if err := (stun.ErrorCodeAttribute{Code: stun.ErrorCode(k.Code), Reason: reason}).AddTo(m); err != nil {
			return "errcode-rejected", fmt.Sprintf("ERROR-CODE %d with %d-byte reason rejected: %v", k.Code, k.Len, err)
		}
		c06Finish(m, k)
		wantVal := ref.EncodeErrorCode(k.Code, reason)
		wantRaw := ref.Encode(ref.TypeWord(1, 2), tid, []ref.EncodeAttr{{Type: 0x0009, Value: wantVal}})
		if !bytes.Equal(m.Raw, wantRaw) {
			return "errcode-wire-format", fmt.Sprintf("ERROR-CODE %d wrote %x, RFC 5389 s15.6 prescribes %x", k.Code, clip(m.Raw[20:]), clip(wantRaw[20:]))
		}
		for _, src := range [][]byte{m.Raw, wantRaw} {
			d, derr := decodeCopy(src)
			if derr != nil {
				return "errcode-redecode", derr.Error()
			}
			var g stun.ErrorCodeAttribute
			if gerr := g.GetFrom(d); gerr != nil || int(g.Code) != k.Code || !bytes.Equal(g.Reason, reason) {
				return "errcode-roundtrip", fmt.Sprintf("ERROR-CODE %d reason %d bytes read back as %d / %d bytes err %v", k.Code, k.Len, g.Code, len(g.Reason), gerr)
			}
		}
		v, _ := m.Get(stun.AttrErrorCode)
		if code, r, rerr := ref.DecodeErrorCode(v); rerr != nil || code != k.Code || !bytes.Equal(r, reason) {
			return "errcode-ref-decode", fmt.Sprintf("reference decoder reads code %d", code)
		}
		// the shorthand with the default reason: what a caller does to the Reason it read back (it views that message)
		// does not change the phrase later messages carry
		if k.Len == 0 && c09Codes[k.Code] {
			phrase := func() ([]byte, *stun.ErrorCodeAttribute, error) {
				b := new(stun.Message)
				b.WriteHeader()
				if err := stun.ErrorCode(k.Code).AddTo(b); err != nil {
					return nil, nil, err
				}
				d, derr := decodeCopy(b.Raw)
				if derr != nil {
					return nil, nil, derr
				}
				g := new(stun.ErrorCodeAttribute)
				if err := g.GetFrom(d); err != nil {
					return nil, nil, err
				}
				return append([]byte(nil), g.Reason...), g, nil
			}
			r1, g1, err1 := phrase()
			if err1 != nil {
				return "errcode-default-reason", fmt.Sprintf("ErrorCode(%d).AddTo / GetFrom: %v", k.Code, err1)
			}
			for i := range g1.Reason {
				g1.Reason[i] = '#' // the caller edits what it got (lower-cases it, redacts it)
			}
			r2, _, err2 := phrase()
			if err2 != nil || !bytes.Equal(r1, r2) {
				return "errcode-default-reason", fmt.Sprintf("ErrorCode(%d).AddTo carried %q; after a caller overwrote the Reason it had read from that message, the next message carries %q (err %v)", k.Code, r1, r2, err2)
			}
		}
	case "unknown":
		list := make(stun.UnknownAttributes, len(k.Types))
		for i, t := range k.Types {
			list[i] = stun.AttrType(t)
		}
		if err := list.AddTo(m); err != nil {
			return "unknown-rejected", err.Error()
		}
		c06Finish(m, k)
		wantVal := ref.EncodeUnknownAttributes(k.Types)
		wantRaw := ref.Encode(ref.TypeWord(1, 2), tid, []ref.EncodeAttr{{Type: 0x000A, Value: wantVal}})
		v, _ := m.Get(stun.AttrUnknownAttributes)
		if !bytes.Equal(m.Raw, wantRaw) {
			return "unknown-attributes-wire-format", fmt.Sprintf("UNKNOWN-ATTRIBUTES %04x wrote value %x, RFC 5389 s15.9 prescribes 16-bit entries: %x", k.Types, clip(v), clip(wantVal))
		}
		for _, src := range [][]byte{m.Raw, wantRaw} {
			d, derr := decodeCopy(src)
			if derr != nil {
				return "unknown-redecode", derr.Error()
			}
			var g stun.UnknownAttributes
			gerr := g.GetFrom(d)
			same := gerr == nil && len(g) == len(k.Types)
			if same {
				for i := range g {
					if uint16(g[i]) != k.Types[i] {
						same = false
					}
				}
			}
			if !same {
				return "unknown-attributes-roundtrip", fmt.Sprintf("UNKNOWN-ATTRIBUTES %04x read back as %v err %v", k.Types, g, gerr)
			}
		}
		if ts, rerr := ref.DecodeUnknownAttributes(v); rerr != nil || len(ts) != len(k.Types) {
			return "unknown-attributes-ref-decode", fmt.Sprintf("reference decoder reads %d entries from %x", len(ts), clip(v))
		}
	}
	return "", ""
}

var c06TIDs = [][]byte{
	{0, 0, 0, 0, 0, 0, 0, 0, 0, 0, 0, 0},
	{0xff, 0xff, 0xff, 0xff, 0xff, 0xff, 0xff, 0xff, 0xff, 0xff, 0xff, 0xff},
	{0x01, 0x23, 0x45, 0x67, 0x89, 0xab, 0xcd, 0xef, 0x10, 0x32, 0x54, 0x76},
	{0x21, 0x12, 0xA4, 0x42, 0x21, 0x12, 0xA4, 0x42, 0x21, 0x12, 0xA4, 0x42},
}

func c06IPs() [][]byte {
	v6 := net.ParseIP("2001:db8:85a3::8a2e:370:7334")
	return [][]byte{
		{192, 0, 2, 1},
		v6,
		net.ParseIP("203.0.113.77").To16(), // IPv4-mapped IPv6
	}
}

func init() {
	registry["C06"] = propImpl{
		Run: func(c *Ctx) {
			var i int64
			do := func(k c06Case, class string) {
				i++
				if !c.Mine(i) {
					return
				}
				c.Eval(1)
				c.DistinctByConstruction++
				if key, d := c06Check(k); key != "" {
					c.Violation(key, d, k)
					return
				}
				c.Outcome(class)
				if i%200003 == 5 {
					c.Sample(k)
				}
			}
			xorAttrs := []uint16{0x0020, 0x0012, 0x0016, 0xFFFF}
			mappedAttrs := []uint16{0x0001, 0x8023, 0x802b, 0x802c}
			ips := c06IPs()
			seedTID := make([]byte, 12)
			for j := range seedTID {
				seedTID[j] = byte(c.Seed*131 + int64(j)*29)
			}
			tids := append(append([][]byte{}, c06TIDs...), seedTID)
			// all ports x families x transaction IDs x attribute types
			for port := 0; port < 65536; port++ {
				for ipi, ip := range ips {
					for _, tid := range tids {
						at := xorAttrs[(port+ipi)%len(xorAttrs)]
						do(c06Case{Kind: "xor", Attr: at, IP: ip, Port: port, TID: tid}, fmt.Sprintf("xor/ip%d", len(canonIP(ip))))
						if c.Thorough() { // the full product with the attribute types
							for _, at2 := range xorAttrs {
								if at2 != at {
									do(c06Case{Kind: "xor", Attr: at2, IP: ip, Port: port, TID: tid}, "xor/full-product")
								}
							}
						}
					}
					at := mappedAttrs[(port+ipi)%len(mappedAttrs)]
					do(c06Case{Kind: "mapped", Attr: at, IP: ip, Port: port, TID: tids[port%len(tids)]}, fmt.Sprintf("mapped/ip%d", len(canonIP(ip))))
					if c.Thorough() {
						for _, at2 := range mappedAttrs {
							if at2 != at {
								do(c06Case{Kind: "mapped", Attr: at2, IP: ip, Port: port, TID: tids[port%len(tids)]}, "mapped/full-product")
							}
						}
					}
				}
			}
			// every attribute type x a port subset x families x TIDs (the type axis in full)
			for _, port := range []int{0, 1, 0x2112, 0x2113, 3478, 0x8000, 65535} {
				for _, ip := range ips {
					for _, tid := range tids {
						for _, at := range xorAttrs {
							do(c06Case{Kind: "xor", Attr: at, IP: ip, Port: port, TID: tid}, "xor/types")
						}
						for _, at := range mappedAttrs {
							do(c06Case{Kind: "mapped", Attr: at, IP: ip, Port: port, TID: tid}, "mapped/types")
						}
					}
				}
			}
			// address bytes and transaction-ID bytes, one position at a time x all 256 values
			for _, base := range ips {
				for pos := 0; pos < len(base); pos++ {
					for v := 0; v < 256; v++ {
						ip := append([]byte(nil), base...)
						ip[pos] = byte(v)
						do(c06Case{Kind: "xor", Attr: 0x0020, IP: ip, Port: 4242, TID: tids[2]}, "xor/ipbyte")
						do(c06Case{Kind: "mapped", Attr: 0x0001, IP: ip, Port: 4242, TID: tids[2]}, "mapped/ipbyte")
					}
				}
				for pos := 0; pos < 12; pos++ {
					for v := 0; v < 256; v++ {
						tid := append([]byte(nil), tids[2]...)
						tid[pos] = byte(v)
						do(c06Case{Kind: "xor", Attr: 0x0020, IP: base, Port: 4242, TID: tid}, "xor/tidbyte")
					}
				}
			}
			// destination values reused across decodes (IPv6 then IPv4 and back), every getter, 6 orders
			for _, at := range xorAttrs {
				for o := 0; o < 6; o++ {
					do(c06Case{Kind: "reuse-xor", Attr: at, Len: o, TID: tids[2]}, "reuse")
				}
			}
			for _, at := range mappedAttrs {
				for o := 0; o < 6; o++ {
					do(c06Case{Kind: "reuse-mapped", Attr: at, Len: o, TID: tids[3]}, "reuse")
				}
			}
			// text attributes: every length up to the limit
			for _, ta := range []struct {
				t   uint16
				max int
			}{{0x0006, 513}, {0x0014, 763}, {0x0015, 763}, {0x8022, 763}} {
				for l := 0; l <= ta.max; l++ {
					for _, f := range []byte{0x00, 0x41, 0xFF} {
						do(c06Case{Kind: "text", Attr: ta.t, Len: l, Filler: f, TID: tids[2]}, "text")
					}
				}
			}
			// text that looks quoted, bracketed, padded or terminated: the value is opaque to the codec (RFC 5389 15.3,
			// 15.7-15.10 give no delimiters), so every (first, last) pair over the delimiter alphabet must read back as
			// written, at every small length and at the limit
			delims := []byte{'"', '\'', '<', '>', '(', ')', '[', ']', '{', '}', ' ', 0, '\n', '\r', '\t', ':', '%', '\\', ',', ';', '=', 0xFF}
			for _, ta := range []struct {
				t   uint16
				max int
			}{{0x0006, 513}, {0x0014, 763}, {0x0015, 763}, {0x8022, 763}} {
				for _, a := range delims {
					for _, b := range delims {
						for _, l := range []int{1, 2, 3, 4, 5, 8, 9, 16, 40, ta.max} {
							do(c06Case{Kind: "text", Attr: ta.t, Len: l, Filler: 0x61, TID: tids[2], Edged: true, First: a, Last: b}, "text/delimited")
						}
					}
				}
			}
			// error codes 300..699 x reason lengths
			for code := 300; code <= 699; code++ {
				for _, l := range []int{0, 1, 2, 3, 4, 5, 100, 763} {
					do(c06Case{Kind: "errcode", Code: code, Len: l, TID: tids[2]}, "errcode")
				}
				if c.Thorough() {
					for l := 6; l < 763; l++ {
						do(c06Case{Kind: "errcode", Code: code, Len: l, TID: tids[2]}, "errcode/all-lengths")
					}
				}
			}
			// the same encoders after an encoding of a different attribute into another message (shared scratch state)
			for pre := 1; pre <= 4; pre++ {
				for code := 300; code <= 699; code += 7 {
					for _, l := range []int{0, 1, 5, 763} {
						do(c06Case{Kind: "errcode", Code: code, Len: l, TID: tids[2], Pre: pre}, "errcode/after-other")
					}
				}
				for n := 0; n <= 24; n++ {
					ts := make([]uint16, n)
					for j := range ts {
						ts[j] = uint16(0x0014 + j)
					}
					do(c06Case{Kind: "unknown", Types: ts, TID: tids[2], Pre: pre}, "unknown/after-other")
				}
				for _, l := range []int{0, 1, 3, 4, 100, 513} {
					do(c06Case{Kind: "text", Attr: 0x0006, Len: l, Filler: 0, TID: tids[2], Pre: pre}, "text/after-other")
				}
				for _, ip := range ips {
					do(c06Case{Kind: "xor", Attr: 0x0020, IP: ip, Port: 0, TID: tids[0], Pre: pre}, "xor/after-other")
					do(c06Case{Kind: "mapped", Attr: 0x0001, IP: ip, Port: 0, TID: tids[0], Pre: pre}, "mapped/after-other")
				}
			}
			// caller-supplied storage whose capacity ends inside the attribute's padding
			for capx := 1; capx <= 4; capx++ {
				for l := 0; l <= 40; l++ {
					do(c06Case{Kind: "text", Attr: 0x0006, Len: l, Filler: 0x41, TID: tids[2], Cap: capx}, "text/caller-capacity")
					do(c06Case{Kind: "errcode", Code: 438, Len: l, TID: tids[2], Cap: capx}, "errcode/caller-capacity")
				}
				for n := 0; n <= 9; n++ {
					ts := make([]uint16, n)
					for j := range ts {
						ts[j] = uint16(0x8000 + j)
					}
					do(c06Case{Kind: "unknown", Types: ts, TID: tids[2], Cap: capx}, "unknown/caller-capacity")
				}
			}
			// every kind again on a Message that was used, Reset, and gets its header only after the attribute
			for code := 300; code <= 699; code += 3 {
				for _, l := range []int{0, 1, 5, 11, 12, 13, 16, 17, 100, 763} {
					do(c06Case{Kind: "errcode", Code: code, Len: l, TID: tids[2], Reuse: true}, "errcode/reset-then-add")
				}
			}
			for n := 0; n <= 24; n++ {
				ts := make([]uint16, n)
				for j := range ts {
					ts[j] = uint16(0x8000 + j)
				}
				do(c06Case{Kind: "unknown", Types: ts, TID: tids[2], Reuse: true}, "unknown/reset-then-add")
			}
			for _, ta := range []uint16{0x0006, 0x0014, 0x0015, 0x8022} {
				for l := 0; l <= 513; l += 7 {
					do(c06Case{Kind: "text", Attr: ta, Len: l, Filler: 0x41, TID: tids[2], Reuse: true}, "text/reset-then-add")
				}
			}
			for _, ip := range ips {
				for _, at := range xorAttrs {
					do(c06Case{Kind: "xor", Attr: at, IP: ip, Port: 4242, TID: tids[2], Reuse: true}, "xor/reset-then-add")
				}
				for _, at := range mappedAttrs {
					do(c06Case{Kind: "mapped", Attr: at, IP: ip, Port: 4242, TID: tids[2], Reuse: true}, "mapped/reset-then-add")
				}
			}
			// unknown attributes: lists with repeated entries (all pairs and triples over 4 types, runs of one type)
			rep := []uint16{0x0030, 0x0014, 0x8022, 0xFFFF}
			for _, a := range rep {
				for _, b := range rep {
					do(c06Case{Kind: "unknown", Types: []uint16{a, b}, TID: tids[2]}, "unknown/repeats")
					for _, d := range rep {
						do(c06Case{Kind: "unknown", Types: []uint16{a, b, d}, TID: tids[2]}, "unknown/repeats")
						for _, e := range rep {
							do(c06Case{Kind: "unknown", Types: []uint16{a, b, d, e}, TID: tids[2]}, "unknown/repeats")
						}
					}
				}
			}
			for n := 1; n <= 12; n++ {
				ts := make([]uint16, n)
				for j := range ts {
					ts[j] = 0x0015
				}
				do(c06Case{Kind: "unknown", Types: ts, TID: tids[2]}, "unknown/repeats")
			}
			// unknown attributes: every singleton, lists of 0..64 entries
			for t := 0; t < 65536; t++ {
				do(c06Case{Kind: "unknown", Types: []uint16{uint16(t)}, TID: tids[2]}, "unknown/singleton")
			}
			for n := 0; n <= 64; n++ {
				for _, pat := range []int{0, 1, 2} {
					ts := make([]uint16, n)
					for j := range ts {
						switch pat {
						case 0:
							ts[j] = uint16(0x0014 + j)
						case 1:
							ts[j] = 0xFFFF - uint16(j*257)
						case 2:
							ts[j] = uint16(0x8000 | j)
						}
					}
					do(c06Case{Kind: "unknown", Types: ts, TID: tids[2]}, "unknown/list")
				}
			}
		},
		Replay: func(c *Ctx, p json.RawMessage) {
			var k c06Case
			if err := json.Unmarshal(p, &k); err != nil {
				c.Fail("%v", err)
			}
			if key, d := c06Check(k); key != "" {
				c.Violation(key, d, k)
			}
		},
	}
}
