//go:build vsched

package main

import (
	"encoding/json"
	"fmt"
	"math"
	"time"

	"verif/mc/explore"
)

// Shared driver for the client properties C10 C11 C12 C15.

// cliExplore explores one scenario and folds the result into the shard result.
func cliExplore(c *Ctx, prop string, sc cliScenario, pre int, shardInside bool, tag string) {
	opt := explore.Options{Preemptions: pre, EnvDevs: 2, Deadline: c.Deadline, KnownKeys: knownKeys()}
	if shardInside {
		opt.Shard, opt.NShards = c.Shard, c.NShards
	}
	sc.Pre = pre
	st := explore.Explore(cliRunFunc(sc, prop), opt)
	if st.HarnessError != "" {
		c.Fail("%s in %v", st.HarnessError, sc)
	}
	c.Eval(st.Executions)
	c.DistinctByConstruction += st.Executions
	c.Res.States += st.Executions
	c.Res.Transitions += st.Points + st.Executions
	c.Res.Traces += st.Executions
	if float64(st.MaxPoints) > c.extraNum("max_choice_points_per_execution") {
		c.Res.Extra["max_choice_points_per_execution"] = float64(st.MaxPoints)
	}
	if float64(st.MaxSteps) > c.extraNum("max_steps_per_execution") {
		c.Res.Extra["max_steps_per_execution"] = float64(st.MaxSteps)
	}
	if !st.Complete {
		c.Res.Exhaustive = false
	}
	for o, n := range st.Outcomes {
		if len(c.Res.Outcomes) < 400 {
			c.Res.Outcomes[tag+":"+o] += n
		} else {
			c.Res.Outcomes[tag+":(other)"] += n
		}
	}
	for _, f := range st.Found {
		s := sc
		s.Prefix = f.Choices
		if f.Key == "harness" {
			c.Fail("%s in %v", f.Detail, sc)
		}
		c.Violation(f.Key, fmt.Sprintf("%v schedule %v => %s", sc, f.Choices, f.Detail), s)
	}
}

func cliReplay(prop string) func(c *Ctx, p json.RawMessage) {
	return func(c *Ctx, p json.RawMessage) {
		var sc cliScenario
		if err := json.Unmarshal(p, &sc); err != nil {
			c.Fail("%v", err)
		}
		_, finds, _ := cliRunFunc(sc, prop)(sc.Prefix)
		for _, f := range finds {
			if f.Key == "harness" {
				c.Fail("%s", f.Detail)
			}
			c.Violation(f.Key, f.Detail, sc)
		}
	}
}

// cliHistories enumerates every history over alpha up to depth d (a response
// is only generated for a slot that was started earlier) and explores each with
// the given epilogues at preemption bound 0.
func cliHistories(c *Ctx, prop string, opts cliOpts, alpha []cliEv, depth int, epilogues []string, tag string) {
	cliHistoriesFrom(c, prop, opts, nil, alpha, depth, epilogues, tag)
}

// cliHistoriesFrom is cliHistories after a fixed sequential prefix (a start state other than the initial one).
func cliHistoriesFrom(c *Ctx, prop string, opts cliOpts, setup []cliEv, alpha []cliEv, depth int, epilogues []string, tag string) {
	var hist []cliEv
	var item int64
	var rec func()
	rec = func() {
		if len(hist) > 0 {
			item++
			if c.Mine(item) {
				if c.Expired() {
					c.Res.Exhaustive = false
					return
				}
				closed := false
				for _, e := range hist {
					if e.K == "close" {
						closed = true
					}
				}
				for _, ep := range epilogues {
					if closed && ep != epilogues[0] {
						continue // epilogues differ only for histories that did not close
					}
					sc := cliScenario{Opts: opts, Setup: setup, Threads: [][]cliEv{append([]cliEv(nil), hist...)}, Sequential: true, Epilogue: ep}
					cliExplore(c, prop, sc, 0, false, tag)
					c.Res.Extra["sum_histories"] = c.extraNum("sum_histories") + 1
				}
				if item%3989 == 7 {
					c.Sample(fmt.Sprint(hist))
				}
			}
		}
		if len(hist) == depth {
			return
		}
		started := map[int]bool{}
		closed := false
		for _, e := range setup {
			if e.K == "start" || e.K == "do" {
				started[e.I] = true
			}
		}
		for _, e := range hist {
			if e.K == "start" || e.K == "do" {
				started[e.I] = true
			}
			if e.K == "close" {
				closed = true
			}
		}
		for _, e := range alpha {
			if (e.K == "resp" || e.K == "overwrite") && !started[e.I] {
				continue
			}
			if closed && e.K != "close" && e.K != "start" && e.K != "tick" {
				continue // after Close only Close / Start / tick are interesting
			}
			hist = append(hist, e)
			rec()
			hist = hist[:len(hist)-1]
		}
	}
	rec()
}

func init() {
	registry["C10"] = propImpl{
		Run: func(c *Ctx) {
			depth, pb := 4, 2
			if c.Thorough() {
				depth, pb = 5, 3
			}
			alpha := []cliEv{
				{K: "start", I: 0}, {K: "start", I: 1}, {K: "do", I: 2}, {K: "do", I: 0},
				{K: "resp", I: 0}, {K: "resp", I: 1}, {K: "resp", I: 2}, {K: "resp", I: 0, Arg: 3},
				{K: "unknown"}, {K: "garbage", Arg: 0}, {K: "readerr", Arg: 3},
				{K: "tick", Arg: 0}, {K: "tick", Arg: 1}, {K: "tick", Arg: 2},
				{K: "failwrite"}, {K: "failwrite", Arg: 1}, {K: "failagent"}, {K: "failagent", Arg: 1}, {K: "close"},
			}
			cliHistories(c, "C10", cliOpts{}, alpha, depth, []string{"drain+close", "close"}, "H")
			cliHistories(c, "C10", cliOpts{NoRetransmit: true, Fallback: true}, alpha, depth-1, []string{"drain+close", "close"}, "Hnr")
			// handlers that call back into the client when they are told of a failure (a retry, an Indicate): whatever the
			// client holds while it runs a handler, it must not be something those calls need
			cliHistories(c, "C10", cliOpts{Reentrant: true}, alpha, depth-1, []string{"drain+close", "close"}, "Hre")
			// time scales: an RTO of 250 years puts every deadline beyond what a 64-bit count of nanoseconds since 1970
			// holds, the largest RTO a Duration can express beyond that; a response still completes the transaction, a
			// tick "far" in the future (an hour) times nothing out
			slowAlpha := []cliEv{{K: "start", I: 0}, {K: "start", I: 1}, {K: "resp", I: 0}, {K: "resp", I: 1}, {K: "tick", Arg: 4}, {K: "tick", Arg: 2}, {K: "close"}}
			for _, rto := range []time.Duration{250 * 365 * 24 * time.Hour, time.Duration(math.MaxInt64)} {
				cliHistories(c, "C10", cliOpts{RTO: int64(rto)}, slowAlpha, depth-1, []string{"close"}, "Hcenturies")
				cliHistories(c, "C10", cliOpts{RTO: int64(rto), NoRetransmit: true}, slowAlpha, depth-1, []string{"close"}, "Hcenturies-nr")
			}
			// from a non-initial state: A was answered once already (so late / duplicate responses to A exist)
			cliHistoriesFrom(c, "C10", cliOpts{}, []cliEv{{K: "start", I: 0}, {K: "resp", I: 0}}, alpha, depth-1, []string{"drain+close"}, "Hafter")
			for i, sc := range cliConcurrentScenarios() {
				cliExplore(c, "C10", sc, pb, true, fmt.Sprintf("S%d", i+1))
			}
			// many transactions expiring at the same tick (the agent sizes its collect scratch for 100)
			if c.Shard == 0 {
				for _, n := range []int{99, 100, 101, 250} {
					for _, nr := range []bool{false, true} {
						var h []cliEv
						for i := 0; i < n; i++ {
							h = append(h, cliEv{K: "start", I: 10 + i})
						}
						h = append(h, cliEv{K: "tick", Arg: 2})
						sc := cliScenario{Opts: cliOpts{NoRetransmit: nr}, Threads: [][]cliEv{h}, Sequential: true, Epilogue: "drain+close"}
						cliExplore(c, "C10", sc, 0, false, "many")
					}
				}
			}
			c.Extra("history_depth", float64(depth))
			c.Extra("preemption_bound", float64(pb))
			c.Extra("history_alphabet", fmt.Sprint(alpha))
		},
		Replay: cliReplay("C10"),
	}
}

// cliConcurrentScenarios are the scenarios with real interleavings (DESIGN C10 E/S).
func cliConcurrentScenarios() []cliScenario {
	ev := func(k string, i int) cliEv { return cliEv{K: k, I: i} }
	tickAfter, tickFar := cliEv{K: "tick", Arg: 1}, cliEv{K: "tick", Arg: 2}
	return []cliScenario{
		// S1 Start(A) || resp(A) || tick
		{Threads: [][]cliEv{nil, {ev("start", 0)}, {ev("resp", 0)}, {tickFar}}, Epilogue: "drain+close"},
		// S2 Start(A) || Close
		{Threads: [][]cliEv{nil, {ev("start", 0)}, {{K: "close"}}}, Epilogue: "close"},
		// S3 Do(A) || Close || resp(A)
		{Threads: [][]cliEv{nil, {ev("do", 0)}, {{K: "close"}}, {ev("resp", 0)}}, Epilogue: "close"},
		// S4 retransmission with a write fault || response, then the probe
		{Setup: []cliEv{ev("start", 0), {K: "failwrite"}}, Threads: [][]cliEv{nil, {tickAfter}, {ev("resp", 0)}}, Probe: true, Epilogue: "drain+close", Opts: cliOpts{PoolFanout: true}},
		// S4b the same with a write error that is a net.Error time-out
		{Setup: []cliEv{ev("start", 0), {K: "failwrite", Arg: 1}}, Threads: [][]cliEv{nil, {tickAfter}, {ev("resp", 0)}}, Probe: true, Epilogue: "drain+close", Opts: cliOpts{PoolFanout: true}},
		// S5 Start(A) || Start(A)
		{Threads: [][]cliEv{nil, {ev("start", 0)}, {ev("start", 0)}}, DupIDs: true, Epilogue: "drain+close"},
		// S6 two Do in parallel, responses crossed
		{Threads: [][]cliEv{nil, {ev("do", 0)}, {ev("do", 1)}, {ev("resp", 1), ev("resp", 0)}}, Epilogue: "drain+close"},
		// S7 Close || tick in the middle of a retransmission
		{Setup: []cliEv{ev("start", 0)}, Threads: [][]cliEv{nil, {{K: "close"}}, {tickAfter}}, Epilogue: "close"},
		// S8 Close || reader processing a response
		{Setup: []cliEv{ev("start", 0)}, Threads: [][]cliEv{nil, {{K: "close"}}, {ev("resp", 0)}}, Epilogue: "close"},
		// S9 Start with a failing first write || tick (no retransmission: the timeout is final)
		{Setup: []cliEv{{K: "failwrite"}}, Threads: [][]cliEv{nil, {ev("start", 0)}, {tickFar}}, Opts: cliOpts{NoRetransmit: true}, Epilogue: "drain+close"},
		// S11 re-transmission of A || a new Start with the same id (the id is free while the re-transmission is between
		// taking A out of the table and putting it back)
		{Setup: []cliEv{ev("start", 0)}, Threads: [][]cliEv{nil, {tickAfter}, {ev("start", 0)}}, DupIDs: true, Epilogue: "drain+close"},
		// S12 Close while A is in flight || Start(B): B either fails or is completed with a closed error
		{Setup: []cliEv{ev("start", 0)}, Threads: [][]cliEv{nil, {{K: "close"}}, {ev("start", 1)}}, Epilogue: "close"},
		// S13 re-transmission of A with a write fault || response(A) || Start(B) picking up the recycled object
		{Setup: []cliEv{ev("start", 0), {K: "failwrite"}}, Threads: [][]cliEv{nil, {tickAfter}, {ev("resp", 0)}, {ev("start", 1)}}, Epilogue: "drain+close"},
		// S14 the id A was used and answered before; a new Start(A) that the agent refuses || a late duplicate of the old response
		{Setup: []cliEv{ev("start", 0), ev("resp", 0)}, Threads: [][]cliEv{nil, {{K: "failagent"}, ev("start", 0)}, {ev("resp", 0)}}, Epilogue: "drain+close", Probe: true, Opts: cliOpts{PoolFanout: true}},
		// S16 the id A was used and answered before; Start(A) whose first write fails (it releases the transaction and
		// stops it at the agent) || a late duplicate of the old response || another Start(A): the stop may hit the successor
		{Setup: []cliEv{ev("start", 0), ev("resp", 0)}, Threads: [][]cliEv{nil, {{K: "failwrite"}, ev("start", 0)}, {ev("resp", 0)}, {ev("start", 0)}}, DupIDs: true, Epilogue: "drain+close"},
		// S15 the same with Close as the reason for the refusal
		{Setup: []cliEv{ev("start", 0), ev("resp", 0)}, Threads: [][]cliEv{nil, {ev("start", 0)}, {ev("resp", 0)}, {{K: "close"}}}, Epilogue: "close"},
		// the same id again on a recycled transaction object, a late duplicate of the first response in flight, and the
		// clock as a place where Start can be overtaken (a user-supplied Clock is a call into foreign code)
		{Setup: []cliEv{ev("start", 0), ev("resp", 0)}, Threads: [][]cliEv{nil, {ev("start", 0)}, {ev("resp", 0)}}, Epilogue: "drain+close", Opts: cliOpts{PoolFanout: true, ClockPoints: true}},
		{Setup: []cliEv{ev("start", 0), ev("resp", 0)}, Threads: [][]cliEv{nil, {ev("do", 0)}, {ev("resp", 0), ev("resp", 0)}}, Epilogue: "drain+close", Opts: cliOpts{ClockPoints: true}},
		// S17 two collector ticks overlap (a Collector may fire from a timer per tick; Agent.Collect is documented safe
		// for concurrent use): A and B are due at the first, C and D only at the second
		{Setup: []cliEv{ev("start", 0), ev("start", 1), {K: "tick", Arg: 4}, ev("start", 2), ev("start", 3)}, Threads: [][]cliEv{nil, {tickAfter}, {tickFar}}, Opts: cliOpts{NoRetransmit: true}, Epilogue: "drain+close"},
		// S10 Do(A) || resp(A) then Do(A) again on the recycled wait handler
		{Threads: [][]cliEv{nil, {ev("do", 0), ev("do", 0)}, {ev("resp", 0), ev("resp", 0)}}, Epilogue: "drain+close", Opts: cliOpts{PoolFanout: true}},
	}
}
