package main

import (
	"encoding/hex"
	"fmt"
)

// Shared input generator for C01 / C02: length structures, tiny-alphabet
// bodies and the large family (DESIGN section 2, C01 "E").

var attrLenSpecials = []int{0x00FF, 0x0100, 0x7FFF, 0x8000, 0xFFFC, 0xFFFD, 0xFFFE, 0xFFFF}
var declLenSpecials = []int{0x7FFF, 0xFFFC, 0xFFFD, 0xFFFE, 0xFFFF}

func pad4(n int) int { return (n + 3) &^ 3 }

// enumLenSeqs enumerates every list of attribute length fields in which all
// but possibly the last attribute fit into a body of bd bytes.
func enumLenSeqs(bd int, fn func(lens []int)) {
	var lens []int
	var rec func(off int)
	rec = func(off int) {
		fn(lens)
		for l := 0; l <= bd+3; l++ {
			lens = append(lens, l)
			if off+4+pad4(l) <= bd {
				rec(off + 4 + pad4(l))
			} else {
				fn(lens) // overrunning last attribute: a leaf
			}
			lens = lens[:len(lens)-1]
		}
		for _, l := range attrLenSpecials {
			lens = append(lens, l)
			fn(lens)
			lens = lens[:len(lens)-1]
		}
	}
	rec(0)
}

var typePatterns = [][]uint16{
	{0x0001, 0x0020, 0x8020, 0x8028, 0xFFFF},
	{0x0020, 0x0020, 0x8020, 0x0020, 0x8020},
	{0x8020, 0x0008, 0x8028, 0x0008, 0x8028},
	{0x8028, 0x0006, 0x8028, 0x8028, 0x0006},
	{0x0008, 0x0008, 0x0006, 0x0008, 0x8028},
}

var typeWords = []uint16{0x0001, 0xC001, 0x0111, 0xFFFF, 0x3FFF, 0x8000}

// layoutBody writes attribute headers for lens into a body buffer of size n
// pre-filled with filler; headers or values that do not fit are truncated.
func layoutBody(body []byte, lens []int, types []uint16, filler byte) {
	for i := range body {
		body[i] = filler
	}
	off := 0
	for i, l := range lens {
		t := types[i%len(types)]
		hdr := [4]byte{byte(t >> 8), byte(t), byte(l >> 8), byte(l)}
		for k := 0; k < 4; k++ {
			if off+k < len(body) {
				body[off+k] = hdr[k]
			}
		}
		// give value bytes some identity so that wrong views are visible
		for k := 0; k < l && off+4+k < len(body); k++ {
			body[off+4+k] = byte(0x40 + (i*7+k)%0x3f)
		}
		off += 4 + pad4(l)
		if off >= len(body) {
			break
		}
	}
}

func putHeader(buf []byte, typeWord uint16, l int, cookie uint32, tidSeed byte) {
	buf[0], buf[1] = byte(typeWord>>8), byte(typeWord)
	buf[2], buf[3] = byte(l>>8), byte(l)
	buf[4], buf[5], buf[6], buf[7] = byte(cookie>>24), byte(cookie>>16), byte(cookie>>8), byte(cookie)
	for i := 8; i < 20; i++ {
		buf[i] = tidSeed + byte(i)
	}
}

const goodCookie = 0x2112A442

// decodeInput is one generated input.
type decodeInput struct {
	Bytes []byte
	Fam   string // family name for outcome classes
	// Prev, when set, is the datagram the reused Message held just before (worst case for stale storage: the
	// complete message of which Bytes is a prefix)
	Prev []byte
	// Roomy: Bytes is a prefix of a larger array that holds more of the same message behind it; the harness hands
	// the slice over as it is (capacity included)
	Roomy bool
}

func (d *decodeInput) replay() map[string]interface{} {
	if d.Prev != nil {
		return map[string]interface{}{"hex": hex.EncodeToString(d.Bytes), "prev": hex.EncodeToString(d.Prev)}
	}
	if cap(d.Bytes) > len(d.Bytes) {
		// what lies behind the input in the caller's buffer is part of the case
		behind := d.Bytes[len(d.Bytes):cap(d.Bytes)]
		if len(behind) > 4096 {
			behind = behind[:4096]
		}
		return map[string]interface{}{"hex": hex.EncodeToString(d.Bytes), "behind": hex.EncodeToString(behind), "roomy": d.Roomy}
	}
	return map[string]interface{}{"hex": hex.EncodeToString(d.Bytes)}
}

// sweepPrefixAfterFull: a reused Message receives a complete valid message and then a proper prefix of the very
// same message (a truncated datagram). Whatever the first one left in the Message's storage is exactly what
// would complete the second, so any entry point that does not cut its buffer down to the new input accepts it.
func sweepPrefixAfterFull(c *Ctx, fn func(in *decodeInput, seq int64)) {
	var full [][]byte
	for _, m := range c08Msgs[:12] {
		full = append(full, m)
	}
	full = append(full, c01Big)
	var seq int64
	for _, x := range full {
		var cuts []int
		if len(x) <= 120 {
			for k := 0; k < len(x); k++ {
				cuts = append(cuts, k)
			}
		} else {
			cuts = []int{0, 19, 20, 21, 24, 100, len(x) - 9, len(x) - 8, len(x) - 5, len(x) - 4, len(x) - 3, len(x) - 2, len(x) - 1}
		}
		for _, k := range cuts {
			seq++
			if !c.Mine(seq) {
				continue
			}
			fn(&decodeInput{Fam: "prefix-after-full", Bytes: append([]byte(nil), x[:k]...), Prev: x}, seq)
		}
	}
}

// sweepFullAfterPrefix: the reverse order - a reused Message is given a truncated datagram (rejected), then a complete
// message: the rejected bytes must not count for anything (nothing is "pending").
func sweepFullAfterPrefix(c *Ctx, fn func(in *decodeInput, seq int64)) {
	full := append(append([][]byte{}, c08Msgs[:12]...), c01Big)
	var seq int64
	for xi, x := range full {
		for _, k := range []int{1, 19, 20, 21, 24, len(x) - 4, len(x) - 1} {
			if k <= 0 || k >= len(x) {
				continue
			}
			for _, other := range []int{xi, (xi + 1) % len(full), (xi + 5) % len(full)} {
				seq++
				if !c.Mine(seq) {
					continue
				}
				fn(&decodeInput{Fam: "full-after-prefix", Bytes: append([]byte(nil), full[other]...), Prev: append([]byte(nil), x[:k]...)}, seq)
			}
		}
	}
}

// sweepPrefixInRoomySlice: a truncated datagram handed over as buf[:n] of a larger buffer whose spare capacity still
// holds the rest of the message (a read buffer that received the complete message a moment ago): capacity is not content.
func sweepPrefixInRoomySlice(c *Ctx, fn func(in *decodeInput, seq int64)) {
	full := append(append([][]byte{}, c08Msgs[:12]...), c01Big)
	var seq int64
	for _, x := range full {
		var cuts []int
		if len(x) <= 120 {
			for k := 0; k < len(x); k++ {
				cuts = append(cuts, k)
			}
		} else {
			cuts = []int{0, 19, 20, 21, 24, 100, len(x) - 8, len(x) - 4, len(x) - 3, len(x) - 1}
		}
		for _, k := range cuts {
			seq++
			if !c.Mine(seq) {
				continue
			}
			buf := append([]byte(nil), x...)
			fn(&decodeInput{Fam: "prefix-in-roomy-slice", Bytes: buf[:k], Roomy: true}, seq)
		}
	}
}

// sweepMsgTypes runs fn on every 16-bit message type word in front of a header-only and a one-attribute message,
// with the right magic cookie and with three wrong ones: no type may buy an exemption from the cookie.
func sweepMsgTypes(c *Ctx, fn func(in *decodeInput, seq int64)) {
	in := &decodeInput{Fam: "msgtypes"}
	buf := make([]byte, 28)
	var seq int64
	for w := 0; w < 65536; w++ {
		for ci, cookie := range []uint32{goodCookie, goodCookie ^ 0x01000000, 0, goodCookie + 1} {
			for _, withAttr := range []bool{false, true} {
				seq++
				if !c.Mine(seq) {
					continue
				}
				if ci == 0 && !withAttr && w%16 != 0 {
					continue // the well-formed header-only case is covered for every word elsewhere; thinned here
				}
				n := 20
				if withAttr {
					n = 28
					buf[20], buf[21], buf[22], buf[23] = 0x00, 0x06, 0x00, 0x03
					buf[24], buf[25], buf[26], buf[27] = 'a', 'b', 'c', 0
				}
				putHeader(buf, uint16(w), n-20, cookie, byte(w>>3))
				in.Bytes = buf[:n]
				fn(in, seq)
			}
		}
	}
}

// sweepLongTail: a small valid message followed by a long tail inside the buffer (the rest of a stream buffer): the
// property tolerates bytes after the declared length, also when the buffer is longer than any 16-bit quantity.
func sweepLongTail(c *Ctx, fn func(in *decodeInput, seq int64)) {
	in := &decodeInput{Fam: "longtail"}
	var seq int64
	for _, total := range []int{65535, 65554, 65555, 65556, 65557, 65560, 65575, 65591, 65592, 70000, 131071, 131072, 131099, 1 << 20} {
		for _, declared := range []int{0, 4, 36} {
			seq++
			if !c.Mine(seq) {
				continue
			}
			buf := make([]byte, total)
			for i := range buf {
				buf[i] = byte(0x30 + i%7)
			}
			putHeader(buf, 0x0101, declared, goodCookie, 7)
			if declared >= 4 {
				buf[20], buf[21], buf[22], buf[23] = 0x00, 0x06, byte((declared-4)>>8), byte(declared-4)
			}
			in.Bytes = buf
			fn(in, seq)
		}
	}
}

// nValues returns the buffer lengths tried for declared length l and a body
// buffer of bodyCap bytes.
func nValues(l, bodyCap int, out []int) []int {
	out = out[:0]
	add := func(n int) {
		if n < 0 || n > 20+bodyCap {
			return
		}
		for _, x := range out {
			if x == n {
				return
			}
		}
		out = append(out, n)
	}
	for _, n := range []int{0, 1, 19, 20, 21, 23, 24} {
		add(n)
	}
	for d := -5; d <= 4; d++ {
		add(20 + l + d)
	}
	add(20 + bodyCap)
	return out
}

// sweepLengthStructures runs fn on every (sequence, declared length, buffer
// length) input of family (a). full==false restricts declared length and
// buffer length to the neighbourhood of the laid-out body (used for the
// wide entry-point x capacity product).
func sweepLengthStructures(c *Ctx, bd int, full bool, fn func(in *decodeInput, seq int64)) {
	bodyCap := bd + 8
	buf := make([]byte, 20+bodyCap)
	fillers := []byte{0x00, 0xFF, 0xA5, byte(0x11 + c.Seed*37)}
	var seq int64
	var ns []int
	in := &decodeInput{Fam: "lenstruct"}
	enumLenSeqs(bd, func(lens []int) {
		seq++
		if !c.Mine(seq) || c.Expired() {
			return
		}
		natural := 0
		for _, l := range lens {
			natural += 4 + pad4(l)
		}
		types := typePatterns[int(seq)%len(typePatterns)]
		tw := typeWords[int(seq)%len(typeWords)]
		filler := fillers[int(seq/3)%len(fillers)]
		layoutBody(buf[20:], lens, types, filler)
		var ls []int
		if full {
			for l := 0; l <= bd+5; l++ {
				ls = append(ls, l)
			}
			ls = append(ls, declLenSpecials...)
		} else {
			for d := -4; d <= 4; d++ {
				if natural+d >= 0 && natural+d <= 0xFFFF {
					ls = append(ls, natural+d)
				}
			}
		}
		for _, l := range ls {
			if full {
				ns = nValues(l, bodyCap, ns)
			} else {
				ns = ns[:0]
				for _, n := range []int{20 + l, 20 + l + 3} {
					if n <= 20+bodyCap {
						ns = append(ns, n)
					}
				}
			}
			for _, n := range ns {
				putHeader(buf, tw, l, goodCookie, byte(seq))
				in.Bytes = buf[:n]
				fn(in, seq)
			}
		}
		// cookie: every single-bit error, on a thin slice of the sequences
		if seq%97 == 1 && natural <= bodyCap {
			for bit := 0; bit < 32; bit++ {
				putHeader(buf, tw, natural, goodCookie^(1<<uint(bit)), byte(seq))
				in.Bytes = buf[:20+natural]
				in.Fam = "cookie"
				fn(in, seq)
			}
			in.Fam = "lenstruct"
		}
	})
}

// sweepTypes runs fn on messages whose single / last attribute carries every 16-bit type word, in five shapes:
// well-formed, value cut short, last attribute without its padding (1..3 bytes missing), and the same behind a
// first well-formed attribute. Decoders must not treat any attribute type specially.
func sweepTypes(c *Ctx, fn func(in *decodeInput, seq int64)) {
	in := &decodeInput{Fam: "types"}
	buf := make([]byte, 64)
	var seq int64
	for t := 0; t < 65536; t++ {
		for shape := 0; shape < 6; shape++ {
			seq++
			if !c.Mine(seq) {
				continue
			}
			for i := range buf {
				buf[i] = byte(0x30 + i)
			}
			n := 0
			put := func(declared int, attrs ...[3]int) { // attr = {type, declared value length, bytes actually present}
				off := 20
				for _, a := range attrs {
					buf[off], buf[off+1] = byte(a[0]>>8), byte(a[0])
					buf[off+2], buf[off+3] = byte(a[1]>>8), byte(a[1])
					off += 4 + a[2]
				}
				putHeader(buf, 0x0001, declared, goodCookie, byte(t))
				n = off
			}
			switch shape {
			case 0:
				put(12, [3]int{t, 5, 8})
			case 1:
				put(8, [3]int{t, 8, 4}) // value cut short by the declared length
			case 2:
				put(9, [3]int{t, 5, 5}) // unpadded last attribute, body ends with the value
			case 3:
				put(11, [3]int{t, 5, 7}) // one padding byte missing
			case 4:
				put(20, [3]int{0x0006, 3, 4}, [3]int{t, 7, 8})
			case 5:
				put(19, [3]int{0x0006, 3, 4}, [3]int{t, 7, 7})
			}
			in.Bytes = buf[:n]
			fn(in, seq)
		}
	}
}

// sweepShort runs fn on every input shorter than a header (0..19 bytes: a prefix of a valid header, zeros, 0xFF) and
// on bare 20..23-byte inputs. The empty input is what a packet connection delivers for a zero-length datagram.
func sweepShort(c *Ctx, fn func(in *decodeInput, seq int64)) {
	in := &decodeInput{Fam: "short"}
	hdr := make([]byte, 24)
	putHeader(hdr, 0x0001, 0, goodCookie, 0x42)
	var seq int64
	for n := 0; n <= 23; n++ {
		for pat := 0; pat < 3; pat++ {
			seq++
			if !c.Mine(seq) {
				continue
			}
			b := make([]byte, n)
			switch pat {
			case 0:
				copy(b, hdr)
			case 2:
				for i := range b {
					b[i] = 0xFF
				}
			}
			in.Bytes = b
			fn(in, seq)
		}
	}
}

var tinyAlphabet = []byte{0x00, 0x01, 0x03, 0x04, 0x05, 0x08, 0xFF}

// sweepTinyBodies runs fn on every body of at most ba bytes over the tiny
// alphabet behind a valid header with every declared length <= ba+4.
func sweepTinyBodies(c *Ctx, ba int, fn func(in *decodeInput, seq int64)) {
	buf := make([]byte, 20+ba)
	idx := make([]int, ba)
	in := &decodeInput{Fam: "tiny"}
	var seq int64
	for blen := 0; blen <= ba; blen++ {
		for i := range idx {
			idx[i] = 0
		}
		for {
			seq++
			if c.Mine(seq) {
				if c.Expired() {
					return
				}
				for i := 0; i < blen; i++ {
					buf[20+i] = tinyAlphabet[idx[i]]
				}
				for l := 0; l <= ba+4; l++ {
					putHeader(buf, 0x0101, l, goodCookie, 7)
					in.Bytes = buf[:20+blen]
					fn(in, seq)
				}
			}
			// odometer
			k := 0
			for k < blen {
				idx[k]++
				if idx[k] < len(tinyAlphabet) {
					break
				}
				idx[k] = 0
				k++
			}
			if k == blen {
				break
			}
		}
	}
}

// sweepLarge runs fn on the large family: declared lengths near 65535, one
// huge attribute, and 16383 zero-length attributes.
func sweepLarge(c *Ctx, fn func(in *decodeInput, seq int64)) {
	in := &decodeInput{Fam: "large"}
	var seq int64
	buf := make([]byte, 20+65535+8)
	for _, l := range []int{65532, 65535} {
		for al := 65524; al <= 65535; al++ {
			for _, dn := range []int{-1, 0, 1} {
				seq++
				if !c.Mine(seq) {
					continue
				}
				for i := range buf {
					buf[i] = 0xA5
				}
				putHeader(buf, 0x0001, l, goodCookie, 3)
				buf[20], buf[21], buf[22], buf[23] = 0x00, 0x06, byte(al>>8), byte(al)
				in.Bytes = buf[:20+l+dn]
				fn(in, seq)
			}
		}
	}
	// 16383 zero-length attributes (the most Attributes entries a message can have)
	seq++
	if c.Mine(seq) {
		for i := range buf {
			buf[i] = 0
		}
		putHeader(buf, 0x0001, 65532, goodCookie, 3)
		for off := 20; off < 20+65532; off += 4 {
			buf[off], buf[off+1] = 0x80, 0x22
		}
		for _, n := range []int{20 + 65531, 20 + 65532, 20 + 65535} {
			in.Bytes = buf[:n]
			fn(in, seq)
		}
	}
	_ = fmt.Sprint
}
