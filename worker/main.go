// Command worker runs one shard of one property check. It is built by vcheck
// with `go build -overlay` against the current working tree of /repo.
package main

import (
	"encoding/json"
	"flag"
	"fmt"
	"hash/fnv"
	"os"
	"runtime/debug"
	"time"

	"verif/mc/proto"
)

// Ctx is what a property harness gets.
type Ctx struct {
	Prop, Tier, Build string
	Shard, NShards    int
	Seed              int64
	Deadline          time.Time
	Res               *proto.ShardResult
	distinct          map[uint64]struct{}
	distinctCap       int
	violKeys          map[string]int
	// DistinctByConstruction is added to the hash-set count: cases that are
	// distinct because the enumeration is a bijection from indices (counted).
	DistinctByConstruction int64
	// noise: the unrelated library activity performed before the current case (-1 none), see noise.go
	noise     int
	mineCount int64
	noiseRuns int64
}

type propImpl struct {
	Run    func(c *Ctx)
	Replay func(c *Ctx, payload json.RawMessage)
}

var registry = map[string]propImpl{}

// Thorough reports whether this is the thorough tier.
func (c *Ctx) Thorough() bool { return c.Tier == "thorough" }

// Mine reports whether work item i belongs to this shard.
func (c *Ctx) Mine(i int64) bool {
	mine := int(i%int64(c.NShards)) == c.Shard
	if mine {
		c.caseBoundary()
	}
	return mine
}

// caseBoundary is called between cases (from Mine and Eval): every noisePeriod-th boundary performs one unrelated
// library activity before the next case (see noise.go).
func (c *Ctx) caseBoundary() {
	if c.Res == nil || !noiseOn(c) {
		return
	}
	c.mineCount++
	if c.mineCount%noisePeriod == 0 {
		c.noiseRuns++
		runNoise(int(c.noiseRuns % noiseKinds))
	}
}

// Expired reports whether the internal deadline has passed (the run then
// reports exhaustive:false instead of being killed).
func (c *Ctx) Expired() bool { return time.Now().After(c.Deadline) }

// Outcome counts one evaluation in an oracle outcome class.
func (c *Ctx) Outcome(class string) { c.Res.Outcomes[class]++ }

// Eval counts n evaluations.
func (c *Ctx) Eval(n int64) {
	c.Res.Evaluations += n
	if n == 1 {
		c.caseBoundary()
	}
}

// Distinct records the identity hash of a non-trivial case.
func (c *Ctx) Distinct(h uint64) {
	if len(c.distinct) >= c.distinctCap {
		return
	}
	c.distinct[h] = struct{}{}
}

// DistinctBytes hashes b and records it.
func (c *Ctx) DistinctBytes(parts ...[]byte) {
	h := fnv.New64a()
	for _, p := range parts {
		h.Write(p)
		h.Write([]byte{0xfe})
	}
	c.Distinct(h.Sum64())
}

// Sample keeps up to 4 samples per shard.
func (c *Ctx) Sample(x interface{}) {
	if len(c.Res.Samples) < 4 {
		c.Res.Samples = append(c.Res.Samples, x)
	}
}

// Violation records a counterexample (at most 3 per key, 40 in total).
func (c *Ctx) Violation(key, detail string, replay interface{}) {
	if c.violKeys[key] >= 1 || len(c.Res.Violations) >= 40 {
		c.violKeys[key]++
		return
	}
	c.violKeys[key]++
	b, err := json.Marshal(replay)
	if err != nil {
		c.Fail("cannot marshal replay: %v", err)
	}
	if c.noiseRuns > 0 {
		// the activities this process performed before the case, oldest first (they cycle, so at most one of each kind)
		var hist []int
		for k := c.noiseRuns - noiseKinds + 1; k <= c.noiseRuns; k++ {
			if k >= 1 {
				hist = append(hist, int(k%noiseKinds))
			}
		}
		b, _ = json.Marshal(map[string]interface{}{"noise_history": hist, "case": json.RawMessage(b)})
	}
	c.Res.Violations = append(c.Res.Violations, proto.Violation{Key: key, Detail: detail, Replay: b})
}

// Violated reports whether any violation was recorded.
func (c *Ctx) Violated() bool { return len(c.Res.Violations) > 0 }

// Extra sets an extra coverage key.
func (c *Ctx) Extra(k string, v interface{}) { c.Res.Extra[k] = v }

// Note adds a note.
func (c *Ctx) Note(format string, a ...interface{}) {
	if len(c.Res.Notes) < 10 {
		c.Res.Notes = append(c.Res.Notes, fmt.Sprintf(format, a...))
	}
}

// Fail aborts with a harness error (exit code 2 at the supervisor).
func (c *Ctx) Fail(format string, a ...interface{}) {
	c.Res.HarnessErr = fmt.Sprintf(format, a...)
	panic(harnessFail{})
}

type harnessFail struct{}

var outPath string

func writeResult(c *Ctx) {
	c.Res.Distinct = int64(len(c.distinct)) + c.DistinctByConstruction
	b, _ := json.Marshal(c.Res)
	if err := os.WriteFile(outPath, b, 0o644); err != nil {
		fmt.Fprintln(os.Stderr, "worker: cannot write result:", err)
		os.Exit(2)
	}
}

func main() {
	debug.SetMaxStack(64 << 20)
	c := &Ctx{distinct: map[uint64]struct{}{}, distinctCap: 3000000, violKeys: map[string]int{}, noise: -1}
	var replay string
	var budget int
	flag.StringVar(&c.Prop, "prop", "", "")
	flag.StringVar(&c.Tier, "tier", "quick", "")
	flag.StringVar(&c.Build, "build", "plain", "")
	flag.IntVar(&c.Shard, "shard", 0, "")
	flag.IntVar(&c.NShards, "nshards", 1, "")
	flag.Int64Var(&c.Seed, "seed", 1, "")
	flag.IntVar(&budget, "budget", 100, "seconds")
	flag.StringVar(&outPath, "out", "", "")
	flag.StringVar(&replay, "replay", "", "")
	child := flag.String("child", "", "internal: isolated child batch")
	flag.Parse()
	if *child != "" {
		runChild(c, *child)
		return
	}
	c.Deadline = time.Now().Add(time.Duration(budget) * time.Second)
	c.Res = &proto.ShardResult{Property: c.Prop, Build: c.Build, Shard: c.Shard, Outcomes: map[string]int64{}, Extra: map[string]interface{}{}, Exhaustive: true}
	impl, ok := registry[c.Prop]
	if !ok {
		c.Res.HarnessErr = "property not implemented in worker: " + c.Prop
		writeResult(c)
		os.Exit(2)
	}
	func() {
		defer func() {
			if r := recover(); r != nil {
				if _, ok := r.(harnessFail); ok {
					return
				}
				c.Res.HarnessErr = fmt.Sprintf("harness panic: %v\n%s", r, debug.Stack())
			}
		}()
		if replay != "" {
			b, err := os.ReadFile(replay)
			if err != nil {
				c.Fail("%v", err)
			}
			var wrapped struct {
				Noise []int           `json:"noise_history"`
				Case  json.RawMessage `json:"case"`
			}
			if json.Unmarshal(b, &wrapped) == nil && len(wrapped.Noise) > 0 && len(wrapped.Case) > 0 {
				for _, k := range wrapped.Noise {
					runNoise(k)
				}
				b = wrapped.Case
			}
			impl.Replay(c, b)
		} else {
			impl.Run(c)
			if c.noiseRuns > 0 {
				c.Res.Extra["sum_cases_preceded_by_unrelated_library_activity"] = float64(c.noiseRuns)
			}
		}
	}()
	writeResult(c)
	if c.Res.HarnessErr != "" {
		fmt.Fprintln(os.Stderr, c.Res.HarnessErr)
		os.Exit(2)
	}
}

// childFuncs are batch functions that run in an isolated child process
// (used where a failure is a process crash or a hang).
var childFuncs = map[string]func(c *Ctx, arg string){}

func runChild(c *Ctx, spec string) {
	name, arg := spec, ""
	for i := 0; i < len(spec); i++ {
		if spec[i] == ':' {
			name, arg = spec[:i], spec[i+1:]
			break
		}
	}
	f, ok := childFuncs[name]
	if !ok {
		fmt.Fprintln(os.Stderr, "unknown child func", name)
		os.Exit(2)
	}
	f(c, arg)
}
