//go:build debug

package main

// libDebug: the library is built with its debug tag (rich error values, extra assertions).
const libDebug = true
