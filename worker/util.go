package main

import (
	"fmt"
	"os"
	"runtime/debug"
	"strings"
	"verif/mc/proto"
)

// catch runs f and returns a description of the panic it raised, if any.
func catch(f func()) (p string) {
	defer func() {
		if r := recover(); r != nil {
			if _, ok := r.(harnessFail); ok {
				panic(r)
			}
			p = fmt.Sprintf("panic: %v | %s", r, shortStack())
		}
	}()
	f()
	return ""
}

func shortStack() string {
	lines := strings.Split(string(debug.Stack()), "\n")
	var out []string
	for _, l := range lines {
		l = strings.TrimSpace(l)
		if strings.HasPrefix(l, "/repo/") || strings.Contains(l, "/.build/") {
			if i := strings.Index(l, " +0x"); i > 0 {
				l = l[:i]
			}
			out = append(out, l)
			if len(out) >= 4 {
				break
			}
		}
	}
	return strings.Join(out, " <- ")
}

// raceViolation builds a violation that is confirmed by re-sampling (a data
// race report is sound by itself; it need not recur on every run).
func raceViolation(key, detail string) proto.Violation {
	return proto.Violation{Key: key, Detail: detail, Replay: []byte(`{"race_pass":true}`), Sampled: true}
}

func max(a, b int) int {
	if a > b {
		return a
	}
	return b
}

// knownKeys are the violation keys the supervisor lists as known findings of the property under check (VERIF_KNOWN_KEYS,
// comma separated): explorations record them once and go on.
func knownKeys() map[string]bool {
	m := map[string]bool{}
	for _, k := range strings.Split(os.Getenv("VERIF_KNOWN_KEYS"), ",") {
		if k != "" {
			m[k] = true
		}
	}
	return m
}
