package main

import (
	"fmt"
	"runtime/debug"
	"strings"
)

// catch runs f and returns a description of the panic it raised, if any.
func catch(f func()) (p string) {
	defer func() {
		if r := recover(); r != nil {
			if _, ok := r.(harnessFail); ok {
				panic(r)
			}
			p = fmt.Sprintf("panic: %v | %s", r, shortStack())
		}
	}()
	f()
	return ""
}

func shortStack() string {
	lines := strings.Split(string(debug.Stack()), "\n")
	var out []string
	for _, l := range lines {
		l = strings.TrimSpace(l)
		if strings.HasPrefix(l, "/repo/") || strings.Contains(l, "/.build/") {
			if i := strings.Index(l, " +0x"); i > 0 {
				l = l[:i]
			}
			out = append(out, l)
			if len(out) >= 4 {
				break
			}
		}
	}
	return strings.Join(out, " <- ")
}
