package main

import (
	"fmt"
	"runtime/debug"
	"strings"
	"verif/mc/proto"
)

// catch runs f and returns a description of the panic it raised, if any.
func catch(f func()) (p string) {
	defer func() {
		if r := recover(); r != nil {
			if _, ok := r.(harnessFail); ok {
				panic(r)
			}
			p = fmt.Sprintf("panic: %v | %s", r, shortStack())
		}
	}()
	f()
	return ""
}

func shortStack() string {
	lines := strings.Split(string(debug.Stack()), "\n")
	var out []string
	for _, l := range lines {
		l = strings.TrimSpace(l)
		if strings.HasPrefix(l, "/repo/") || strings.Contains(l, "/.build/") {
			if i := strings.Index(l, " +0x"); i > 0 {
				l = l[:i]
			}
			out = append(out, l)
			if len(out) >= 4 {
				break
			}
		}
	}
	return strings.Join(out, " <- ")
}

// raceViolation builds a violation that is confirmed by re-sampling (a data
// race report is sound by itself; it need not recur on every run).
func raceViolation(key, detail string) proto.Violation {
	return proto.Violation{Key: key, Detail: detail, Replay: []byte(`{"race_pass":true}`), Sampled: true}
}

func max(a, b int) int {
	if a > b {
		return a
	}
	return b
}
