package main

import (
	"bytes"
	"encoding/json"
	"fmt"
	"net"
	"strings"
	"unsafe"

	stun "github.com/pion/stun/v3"

	"verif/ref"
)

// C08: reusing a Message never leaks or corrupts data across uses.

var c08Msgs = func() [][]byte {
	tid := func(b byte) (t [12]byte) {
		for i := range t {
			t[i] = b + byte(i)
		}
		return
	}
	v := func(n, s int) []byte { return patBytes(n, s) }
	msgs := [][]byte{
		ref.Encode(0x0001, tid(0x10), nil),
		ref.Encode(0x0101, tid(0x20), []ref.EncodeAttr{{Type: 0x0006, Value: v(1, 1)}}),
		ref.Encode(0x0111, tid(0x30), []ref.EncodeAttr{{Type: 0x0006, Value: v(2, 2)}, {Type: 0x8022, Value: v(3, 3)}}),
		ref.Encode(0x0001, tid(0x40), []ref.EncodeAttr{{Type: 0x0014, Value: v(5, 4)}, {Type: 0x0015, Value: v(6, 5)}, {Type: 0x8022, Value: v(7, 6)}}),
		ref.Encode(0x0003, tid(0x50), []ref.EncodeAttr{{Type: 0x0013, Value: v(509, 7)}}),
		ref.Encode(0x0101, tid(0x60), []ref.EncodeAttr{{Type: 0x0020, Value: []byte{0, 1, 0x21, 0x33, 1, 2, 3, 4}}, {Type: 0x0006, Value: v(9, 8)}, {Type: 0x0008, Value: v(20, 9)}, {Type: 0x8028, Value: v(4, 10)}}),
		ref.Encode(0x0001, tid(0x70), []ref.EncodeAttr{{Type: 0x7F00, Value: v(0, 0)}, {Type: 0x7F01, Value: v(0, 0)}, {Type: 0x7F02, Value: v(0, 0)}, {Type: 0x7F03, Value: v(0, 0)}, {Type: 0x7F04, Value: v(0, 0)}, {Type: 0x7F05, Value: v(0, 0)}, {Type: 0x7F06, Value: v(0, 0)}, {Type: 0x7F07, Value: v(0, 0)}, {Type: 0x7F08, Value: v(0, 0)}}),
		ref.Encode(0x0001, tid(0x80), []ref.EncodeAttr{{Type: 0x0006, Value: v(61, 11)}, {Type: 0x0014, Value: v(62, 12)}, {Type: 0x0015, Value: v(63, 13)}}),
		ref.Encode(0x0001, tid(0x90), []ref.EncodeAttr{{Type: 0x0013, Value: v(1201, 14)}}),
		// a short first attribute followed by longer ones whose lengths are not multiples of 4: dropping the first and
		// re-encoding in place moves every later value left by less than its own length
		ref.Encode(0x0001, tid(0xA0), []ref.EncodeAttr{{Type: 0x0024, Value: v(4, 15)}, {Type: 0x0006, Value: v(13, 16)}, {Type: 0x8022, Value: v(30, 17)}, {Type: 0x0014, Value: v(1, 18)}}),
		ref.Encode(0x0001, tid(0xB0), []ref.EncodeAttr{{Type: 0x7F00, Value: v(0, 0)}, {Type: 0x0006, Value: v(7, 19)}, {Type: 0x0015, Value: v(10, 20)}}),
		// well-framed, but the last attribute is an XOR-MAPPED-ADDRESS that announces IPv6 and carries 10 address bytes
		ref.Encode(0x0101, tid(0xC0), []ref.EncodeAttr{{Type: 0x0006, Value: v(5, 21)}, {Type: 0x0020, Value: append([]byte{0, 2, 0x12, 0x34}, v(10, 22)...)}}),
	}
	// three that fail to decode
	bad1 := append([]byte(nil), msgs[3]...)
	bad1 = bad1[:len(bad1)-3] // truncated
	bad2 := append([]byte(nil), msgs[2]...)
	bad2[4] ^= 0x01 // cookie
	bad3 := append([]byte(nil), msgs[5]...)
	bad3[23] = 0x7f // first attribute overruns
	// the last attribute without its padding, the header saying so (RFC 3489-era peers; the decoder rejects it)
	bad4 := append([]byte(nil), msgs[3]...)
	bad4 = bad4[:len(bad4)-1]
	bad4[2], bad4[3] = byte((len(bad4)-20)>>8), byte(len(bad4)-20)
	// an attribute whose length is one of the three values that wrap to 0 when padded in 16 bits
	bad5 := append([]byte(nil), msgs[1]...)
	bad5[22], bad5[23] = 0xFF, 0xFE
	return append(msgs, bad1, bad2, bad3, bad4, bad5)
}()

var c08DecodeNames = []string{"Decode(data,m)", "Write", "UnmarshalBinary", "ReadFrom", "CloneTo", "ReadFrom(segmented stream: 20 | 10 | rest)", "ReadFrom(zero-length datagram)", "GobDecode", "Write; drop the first attribute; Encode in place", "Write; change the first attribute's type and shorten the last value in place; Encode",
	"Write; the caller re-types the first entry and points the last value at a buffer of its own (no Encode); then the same datagram again (through Decode(data,m) / Write / UnmarshalBinary, by message)"}

// c08Setters: each entry builds the setter list from caller-owned buffers and
// returns the buffers so that the caller can overwrite them afterwards.
func c08Setters(i int) (setters []stun.Setter, owned [][]byte) {
	buf := func(n, s int) []byte { b := patBytes(n, s); owned = append(owned, b); return b }
	switch i {
	case 0:
		return nil, nil
	case 1:
		return []stun.Setter{stun.Username(buf(1, 1))}, owned
	case 2:
		return []stun.Setter{stun.Username(buf(2, 2)), stun.Software(buf(3, 3))}, owned
	case 3:
		return []stun.Setter{stun.Realm(buf(5, 4)), stun.Nonce(buf(6, 5)), stun.Software(buf(7, 6))}, owned
	case 4:
		return []stun.Setter{stun.RawAttribute{Type: 0x0013, Value: buf(509, 7)}}, owned
	case 5:
		ip := buf(4, 8)
		return []stun.Setter{&stun.XORMappedAddress{IP: net.IP(ip), Port: 1234}, stun.Username(buf(9, 9)), stun.NewShortTermIntegrity("k"), stun.Fingerprint}, owned
	case 6:
		var ss []stun.Setter
		for k := 0; k < 9; k++ {
			ss = append(ss, stun.RawAttribute{Type: stun.AttrType(0x7F00 + k), Value: buf(0, 0)})
		}
		return ss, owned
	case 7:
		return []stun.Setter{stun.Username(buf(61, 10)), stun.Realm(buf(62, 11)), stun.Nonce(buf(63, 12))}, owned
	case 8:
		return []stun.Setter{stun.BindingSuccess, stun.NewTransactionIDSetter([12]byte{0xaa, 0xbb}), stun.Software(buf(33, 13))}, owned
	case 9:
		return []stun.Setter{stun.ErrorCodeAttribute{Code: 438, Reason: buf(11, 14)}, stun.UnknownAttributes{stun.AttrRealm, stun.AttrNonce, stun.AttrUsername}}, owned
	case 10:
		return []stun.Setter{stun.RawAttribute{Type: 0x0013, Value: buf(1201, 15)}, stun.Fingerprint}, owned
	default:
		ip := buf(16, 16)
		return []stun.Setter{&stun.MappedAddress{IP: net.IP(ip), Port: 99}, stun.Username(buf(3, 17))}, owned
	}
}

const c08NBuild = 12

// A use is an index: [0, 5*len(msgs)) decode uses (entry-major), then build uses.
func c08NUses() int { return len(c08DecodeNames)*len(c08Msgs) + c08NBuild }

func c08UseName(u int) string {
	nd := len(c08DecodeNames) * len(c08Msgs)
	if u < nd {
		return fmt.Sprintf("%s(msg%d,%dB)", c08DecodeNames[u/len(c08Msgs)], u%len(c08Msgs), len(c08Msgs[u%len(c08Msgs)]))
	}
	return fmt.Sprintf("Build(list%d)", u-nd)
}

// segReader delivers its data in pieces of 20, 10 and the rest (a stream transport); then (0, nil).
type segReader struct {
	d   []byte
	off int
	n   int
}

func (r *segReader) Read(p []byte) (int, error) {
	sizes := []int{20, 10, 1 << 20}
	sz := sizes[min(r.n, 2)]
	r.n++
	end := min(r.off+sz, len(r.d))
	k := copy(p, r.d[r.off:end])
	r.off += k
	return k, nil
}

type reusableReader struct{ d []byte }

func (r *reusableReader) Read(p []byte) (int, error) { return copy(p, r.d), nil }

// c08Apply performs use u on m. All caller-owned inputs are overwritten with
// poison after the call. For ReadFrom the Message needs capacity; fresh and
// reused messages both get it through the same rule (grow if too small).
func c08Apply(m *stun.Message, u int, poison byte) error {
	nd := len(c08DecodeNames) * len(c08Msgs)
	scribble := func(b []byte) {
		for i := range b {
			b[i] = poison
		}
	}
	if u >= nd {
		setters, owned := c08Setters(u - nd)
		err := m.Build(setters...)
		for _, b := range owned {
			scribble(b)
		}
		return err
	}
	data := append([]byte(nil), c08Msgs[u%len(c08Msgs)]...)
	var err error
	switch u / len(c08Msgs) {
	case 0:
		err = stun.Decode(data, m)
	case 1:
		_, err = m.Write(data)
	case 2:
		err = m.UnmarshalBinary(data)
	case 3:
		if cap(m.Raw) < len(data) {
			m.Raw = make([]byte, 0, len(data)+7)
		}
		_, err = m.ReadFrom(&reusableReader{d: data})
	case 4:
		src := &stun.Message{Raw: data}
		err = src.CloneTo(m)
	case 5:
		if cap(m.Raw) < len(data) {
			m.Raw = make([]byte, 0, len(data)+7)
		}
		_, err = m.ReadFrom(&segReader{d: data})
	case 6:
		// a packet connection delivers an empty datagram as (0, nil)
		_, err = m.ReadFrom(&reusableReader{})
	case 7:
		err = m.GobDecode(data)
	case 8:
		if _, err = m.Write(data); err == nil && len(m.Attributes) >= 1 {
			m.Attributes = m.Attributes[1:]
			m.Encode()
		}
	case 9:
		if _, err = m.Write(data); err == nil && len(m.Attributes) >= 1 {
			c08EditInPlace(m.Attributes)
			m.Encode()
		}
	case 10:
		if _, err = m.Write(data); err == nil {
			if n := len(m.Attributes); n >= 1 {
				m.Attributes[0].Type ^= 0x4000
				own := bytes.Repeat([]byte{'#'}, len(m.Attributes[n-1].Value))
				m.Attributes[n-1].Value = own
			}
			again := append([]byte(nil), c08Msgs[u%len(c08Msgs)]...) // the re-transmission, in another buffer
			switch u % 3 {
			case 0:
				err = stun.Decode(again, m)
			case 1:
				_, err = m.Write(again)
			case 2:
				err = m.UnmarshalBinary(again)
			}
			scribble(again)
		}
	}
	scribble(data)
	return err
}

// c08EditInPlace changes the list the way a relay does before re-encoding: the first attribute gets another type, the
// last one loses its last byte; the values stay where they are.
func c08EditInPlace(as stun.Attributes) {
	as[0].Type ^= 0x4000
	if l := &as[len(as)-1]; len(l.Value) > 0 {
		l.Value = l.Value[:len(l.Value)-1]
		l.Length--
	}
}

// c08Poison overwrites the storage a Message retains beyond its visible content.
func c08Poison(m *stun.Message, poison byte) {
	spare := m.Raw[len(m.Raw):cap(m.Raw)]
	for i := range spare {
		spare[i] = poison
	}
	as := m.Attributes[len(m.Attributes):cap(m.Attributes)]
	junk := []byte{poison, poison, poison, poison, poison}
	for i := range as {
		as[i] = stun.RawAttribute{Type: 0xDEAD, Length: 0xFFFF, Value: junk}
	}
}

// c08Getters renders what the address getters read from m (they build their result from the value bytes; the other
// getters return views of Raw, which the attribute comparison covers).
func c08Getters(m *stun.Message) string {
	if !m.Contains(stun.AttrXORMappedAddress) && !m.Contains(stun.AttrXORPeerAddress) && !m.Contains(stun.AttrMappedAddress) {
		return ""
	}
	var sb strings.Builder
	var x stun.XORMappedAddress
	fmt.Fprint(&sb, x.GetFrom(m), x.IP, x.Port, ";")
	var xp stun.XORMappedAddress
	fmt.Fprint(&sb, xp.GetFromAs(m, stun.AttrXORPeerAddress), xp.IP, xp.Port, ";")
	var ma stun.MappedAddress
	fmt.Fprint(&sb, ma.GetFrom(m), ma.IP, ma.Port, ";")
	return sb.String()
}

type c08Case struct {
	Uses   []int `json:"uses"`
	Poison byte  `json:"poison"`
}

func (k c08Case) describe() string {
	s := ""
	for i, u := range k.Uses {
		if i > 0 {
			s += " ; "
		}
		s += c08UseName(u)
	}
	return s
}

func c08Same(a, b *stun.Message) string {
	switch {
	case !bytes.Equal(a.Raw, b.Raw):
		i := 0
		for i < len(a.Raw) && i < len(b.Raw) && a.Raw[i] == b.Raw[i] {
			i++
		}
		return fmt.Sprintf("Raw differs at byte %d (len %d vs %d): reused ...%x, fresh ...%x", i, len(a.Raw), len(b.Raw), clip(a.Raw[min(i, len(a.Raw)):]), clip(b.Raw[min(i, len(b.Raw)):]))
	case a.Type != b.Type || a.TransactionID != b.TransactionID || a.Length != b.Length:
		return fmt.Sprintf("header fields differ: reused (%v,%x,%d) fresh (%v,%x,%d)", a.Type, a.TransactionID, a.Length, b.Type, b.TransactionID, b.Length)
	case len(a.Attributes) != len(b.Attributes):
		return fmt.Sprintf("reused message has %d attributes, fresh %d", len(a.Attributes), len(b.Attributes))
	}
	for i := range a.Attributes {
		x, y := a.Attributes[i], b.Attributes[i]
		if x.Type != y.Type || x.Length != y.Length || !bytes.Equal(x.Value, y.Value) {
			return fmt.Sprintf("attribute %d differs: reused (%v,%d,%x) fresh (%v,%d,%x)", i, x.Type, x.Length, clip(x.Value), y.Type, y.Length, clip(y.Value))
		}
	}
	// what the typed getters read from the two messages ("decoded content")
	if ga, gb := c08Getters(a), c08Getters(b); ga != gb {
		return fmt.Sprintf("typed getters read %q from the reused message and %q from the fresh one", clipS(ga), clipS(gb))
	}
	return ""
}

func min(a, b int) int {
	if a < b {
		return a
	}
	return b
}

func c08Run(k c08Case) (outcome, key, detail string) {
	p := catch(func() {
		m := new(stun.Message)
		for i, u := range k.Uses {
			last := i == len(k.Uses)-1
			var fresh *stun.Message
			if last {
				fresh = &stun.Message{Type: m.Type, TransactionID: m.TransactionID}
			}
			err := c08Apply(m, u, k.Poison)
			if last {
				ferr := c08Apply(fresh, u, k.Poison)
				if (err == nil) != (ferr == nil) {
					key, detail = "result-differs", fmt.Sprintf("%s on the reused message returned %v, on a fresh one %v", c08UseName(u), err, ferr)
					return
				}
				if err != nil {
					outcome = "failed-use"
					return
				}
				if u < len(c08DecodeNames)*len(c08Msgs) && u/len(c08Msgs) == 6 {
					key, detail = "leak/"+c08UseKind(u), fmt.Sprintf("reading a zero-length datagram succeeded: the Message still shows %d bytes, %d attributes", len(m.Raw), len(m.Attributes))
					return
				}
				if d := c08Same(m, fresh); d != "" {
					key, detail = "leak/"+c08UseKind(u), d
					return
				}
				nd := len(c08DecodeNames) * len(c08Msgs)
				if u < nd && (u/len(c08Msgs) < 5 || u/len(c08Msgs) == 7 || u/len(c08Msgs) == 10) && !bytes.Equal(m.Raw, c08Msgs[u%len(c08Msgs)]) {
					key, detail = "input-aliased", fmt.Sprintf("%s: Raw changed when the caller overwrote its input", c08UseName(u))
					return
				}
				if u < nd && (u/len(c08Msgs) < 5 || u/len(c08Msgs) == 7 || u/len(c08Msgs) == 10) {
					// absolute check (the fresh twin shares any aliasing bug): after the caller overwrote its input the
					// decoded content must still be that of the original bytes, and every value must live inside m.Raw
					want, _ := ref.Parse(c08Msgs[u%len(c08Msgs)])
					if want == nil || len(want.Attrs) != len(m.Attributes) {
						key, detail = "input-aliased", fmt.Sprintf("%s: attribute list differs from the reference parse of the input", c08UseName(u))
						return
					}
					for i, a := range m.Attributes {
						if uint16(a.Type) != ref.CanonType(want.Attrs[i].Type) {
							key, detail = "stale-attribute", fmt.Sprintf("%s: attribute %d has type %#04x, the message carries %#04x", c08UseName(u), i, uint16(a.Type), want.Attrs[i].Type)
							return
						}
						if !bytes.Equal(a.Value, want.Attrs[i].Value) {
							key, detail = "input-aliased", fmt.Sprintf("%s: attribute %d reads %x after the caller overwrote its input buffer, the message carried %x", c08UseName(u), i, clip(a.Value), clip(want.Attrs[i].Value))
							return
						}
						if len(a.Value) > 0 {
							p := uintptr(unsafe.Pointer(unsafe.SliceData(a.Value)))
							lo := uintptr(unsafe.Pointer(unsafe.SliceData(m.Raw)))
							if p < lo || p+uintptr(len(a.Value)) > lo+uintptr(len(m.Raw)) {
								key, detail = "value-outside-raw", fmt.Sprintf("%s: attribute %d does not point into m.Raw", c08UseName(u), i)
								return
							}
						}
					}
				}
				if u < nd && u/len(c08Msgs) == 9 {
					if pm, _ := ref.Parse(c08Msgs[u%len(c08Msgs)]); pm != nil && len(pm.Attrs) >= 1 {
						var keep []ref.EncodeAttr
						for i, a := range pm.Attrs {
							t, v := ref.CanonType(a.Type), a.Value
							if i == 0 {
								t ^= 0x4000
							}
							if i == len(pm.Attrs)-1 && len(v) > 0 {
								v = v[:len(v)-1]
							}
							keep = append(keep, ref.EncodeAttr{Type: t, Value: v})
						}
						want := ref.Encode(ref.TypeWord(pm.Method, pm.Class), pm.TID, keep)
						if !bytes.Equal(m.Raw, want) {
							key, detail = "reencode-in-place", fmt.Sprintf("%s: Raw is %x, the canonical encoding of the edited attributes is %x", c08UseName(u), clip(m.Raw), clip(want))
							return
						}
					}
				}
				if u < nd && u/len(c08Msgs) == 8 {
					// absolute check: the re-encoded message is the canonical encoding of the attributes that were kept
					if pm, _ := ref.Parse(c08Msgs[u%len(c08Msgs)]); pm != nil && len(pm.Attrs) >= 1 {
						var keep []ref.EncodeAttr
						for i, a := range pm.Attrs {
							if i > 0 {
								keep = append(keep, ref.EncodeAttr{Type: ref.CanonType(a.Type), Value: a.Value})
							}
						}
						want := ref.Encode(ref.TypeWord(pm.Method, pm.Class), pm.TID, keep)
						if !bytes.Equal(m.Raw, want) {
							key, detail = "reencode-in-place", fmt.Sprintf("%s: Raw is %x, the canonical encoding of the kept attributes is %x", c08UseName(u), clip(m.Raw), clip(want))
							return
						}
					}
				}
				// results of MarshalBinary and CloneTo are unaffected by later changes to the source
				mb, _ := m.MarshalBinary()
				gb, _ := m.GobEncode()
				clone := new(stun.Message)
				if cerr := m.CloneTo(clone); cerr != nil {
					key, detail = "clone-fails", cerr.Error()
					return
				}
				// a clone made from inside a ForEach callback (the source's attribute list is narrowed there), and one made
				// after the caller assigned Type without writing it: a clone is a decode of the source's bytes
				var inside *stun.Message
				if len(m.Attributes) >= 2 {
					inside = new(stun.Message)
					got := false
					_ = m.ForEach(m.Attributes[len(m.Attributes)-1].Type, func(mm *stun.Message) error {
						if !got {
							got = true
							_ = mm.CloneTo(inside)
						}
						return nil
					})
				}
				edited := new(stun.Message)
				oldType := m.Type
				m.Type = stun.NewType(stun.Method(0x7AB), stun.ClassIndication)
				_ = m.CloneTo(edited)
				m.Type = oldType
				want := append([]byte(nil), m.Raw...)
				for j := range m.Raw {
					m.Raw[j] = k.Poison
				}
				c08Poison(m, k.Poison)
				if !bytes.Equal(mb, want) {
					key, detail = "marshal-aliased", "MarshalBinary result changed with the source"
					return
				}
				if !bytes.Equal(gb, want) {
					key, detail = "marshal-aliased", "GobEncode result changed when the source (its bytes and the storage it keeps behind them) was overwritten"
					return
				}
				if !bytes.Equal(clone.Raw, want) {
					key, detail = "clone-aliased", "CloneTo result changed with the source"
					return
				}
				for _, a := range clone.Attributes {
					for _, bb := range a.Value {
						_ = bb
					}
				}
				cd := new(stun.Message)
				cd.Raw = append(cd.Raw, want...)
				if derr := cd.Decode(); derr == nil {
					if d := c08Same(clone, cd); d != "" {
						key, detail = "clone-aliased", "clone content changed with the source: "+d
						return
					}
					if inside != nil {
						if d := c08Same(inside, cd); d != "" {
							key, detail = "clone-differs", "a clone made from inside a ForEach callback is not a decode of the source's bytes: "+d
							return
						}
					}
					if d := c08Same(edited, cd); d != "" {
						key, detail = "clone-differs", "a clone made after the caller assigned m.Type (without writing it) is not a decode of the source's bytes: "+d
						return
					}
				}
				outcome = "clean"
				return
			}
			c08Poison(m, k.Poison)
		}
	})
	if p != "" {
		return "", "panic", p + " in " + k.describe()
	}
	if key != "" {
		detail = k.describe() + " => " + detail
	}
	return
}

func c08UseKind(u int) string {
	nd := len(c08DecodeNames) * len(c08Msgs)
	if u < nd {
		return c08DecodeNames[u/len(c08Msgs)]
	}
	return "Build"
}

func init() {
	registry["C08"] = propImpl{
		Run: func(c *Ctx) {
			depth := 3
			poisons := []byte{0xD7, 0xFF, 0x01, byte(0x40 + c.Seed%64)}
			if c.Thorough() {
				depth = 4
			}
			nu := c08NUses()
			uses := make([]int, 0, depth)
			var item int64
			var rec func()
			rec = func() {
				if len(uses) > 0 {
					for pi, p := range poisons {
						if len(uses) == 4 && pi > 0 {
							break // quadruples with one poison
						}
						k := c08Case{Uses: uses, Poison: p}
						c.Eval(1)
						c.DistinctByConstruction++
						c.Res.Traces++
						c.Res.Transitions++
						out, key, d := c08Run(k)
						if key != "" {
							c.Violation(key, d, c08Case{Uses: append([]int(nil), uses...), Poison: p})
						} else {
							c.Outcome(fmt.Sprintf("len%d:%s", len(uses), out))
						}
					}
				}
				if len(uses) == depth {
					return
				}
				for u := 0; u < nu; u++ {
					if len(uses) == 1 {
						item++
						if !c.Mine(item) {
							continue
						}
					}
					if c.Expired() {
						c.Res.Exhaustive = false
						return
					}
					uses = append(uses, u)
					rec()
					uses = uses[:len(uses)-1]
				}
			}
			rec()
			c.Res.States = c.Res.Evaluations
			c.Extra("uses", float64(nu))
			c.Extra("history_depth", float64(depth))
			c.Sample(c08Case{Uses: []int{4, 62, 13}}.describe())
		},
		Replay: func(c *Ctx, p json.RawMessage) {
			var k c08Case
			if err := json.Unmarshal(p, &k); err != nil {
				c.Fail("%v", err)
			}
			if _, key, d := c08Run(k); key != "" {
				c.Violation(key, d, k)
			}
		},
	}
}
