package main

import (
	"encoding/json"
	"fmt"
	"github.com/pion/stun/v3/zzverif/hmacx"
	"hash"
	"net"
	"runtime"
	"runtime/debug"
	"strings"
	"testing"

	stun "github.com/pion/stun/v3"
)

// C20: hot paths allocate nothing in steady state, whatever the message.

type c20Kind struct {
	Name   string
	Setter func() stun.Setter // pointer / reference setter built once
	Attr   stun.AttrType
}

var c20IntegrityKeys = map[string]stun.MessageIntegrity{
	"k20": make(stun.MessageIntegrity, 20), "k64": make(stun.MessageIntegrity, 64), "k65": make(stun.MessageIntegrity, 65), "k200": make(stun.MessageIntegrity, 200),
}

var c20Plain = []c20Kind{
	{"Username(3)", func() stun.Setter { u := stun.NewUsername("abc"); return &setPtr{u} }, stun.AttrUsername},
	{"Username(513)", func() stun.Setter { u := stun.Username(patBytes(513, 1)); return &setPtr{u} }, stun.AttrUsername},
	{"Realm(20)", func() stun.Setter { u := stun.Realm(patBytes(20, 2)); return &setPtr{u} }, stun.AttrRealm},
	{"Nonce(763)", func() stun.Setter { u := stun.Nonce(patBytes(763, 3)); return &setPtr{u} }, stun.AttrNonce},
	{"Software(41)", func() stun.Setter { u := stun.Software(patBytes(41, 4)); return &setPtr{u} }, stun.AttrSoftware},
	{"XORMappedAddress(v4)", func() stun.Setter { return &stun.XORMappedAddress{IP: net.IPv4(1, 2, 3, 4).To4(), Port: 1000} }, stun.AttrXORMappedAddress},
	{"XORMappedAddress(v6)", func() stun.Setter { return &stun.XORMappedAddress{IP: net.ParseIP("2001:db8::7"), Port: 1001} }, stun.AttrXORMappedAddress},
	{"MappedAddress(v4)", func() stun.Setter { return &stun.MappedAddress{IP: net.IPv4(5, 6, 7, 8).To4(), Port: 1002} }, stun.AttrMappedAddress},
	{"AlternateServer(v6)", func() stun.Setter { return &stun.AlternateServer{IP: net.ParseIP("2001:db8::8"), Port: 1003} }, stun.AttrAlternateServer},
	{"ErrorCode(401)", func() stun.Setter { return &stun.ErrorCodeAttribute{Code: 401, Reason: []byte("Unauthorized")} }, stun.AttrErrorCode},
	{"ErrorCode(438,200B reason)", func() stun.Setter { return &stun.ErrorCodeAttribute{Code: 438, Reason: patBytes(200, 5)} }, stun.AttrErrorCode},
	{"ErrorCode(500,763B reason)", func() stun.Setter { return &stun.ErrorCodeAttribute{Code: 500, Reason: patBytes(763, 6)} }, stun.AttrErrorCode},
	{"MAPPED-ADDRESS(raw: IPv6 family, IPv4-mapped address)", func() stun.Setter {
		return &setPtr{stun.RawAttribute{Type: stun.AttrMappedAddress, Value: append([]byte{0, 2, 0x12, 0x34}, net.ParseIP("192.0.2.9").To16()...)}}
	}, stun.AttrMappedAddress},
	{"ALTERNATE-SERVER(raw: IPv6 family, IPv4-mapped address)", func() stun.Setter {
		return &setPtr{stun.RawAttribute{Type: stun.AttrAlternateServer, Value: append([]byte{0, 2, 0x12, 0x34}, net.ParseIP("192.0.2.10").To16()...)}}
	}, stun.AttrAlternateServer},
	{"XOR-MAPPED-ADDRESS(raw: under the legacy type 0x8020 the decoder translates)", func() stun.Setter {
		return &setPtr{stun.RawAttribute{Type: 0x8020, Value: []byte{0, 1, 0x12, 0x34, 0x21, 0x12, 0xA4, 0x43}}}
	}, stun.AttrXORMappedAddress},
	{"UnknownAttributes(3)", func() stun.Setter {
		u := stun.UnknownAttributes{stun.AttrRealm, stun.AttrNonce, stun.AttrUsername}
		return &setPtr{u}
	}, stun.AttrUnknownAttributes},
}

// setPtr wraps a value-type setter behind a pointer so that putting it into a
// []Setter does not allocate per call.
type setPtr struct{ s stun.Setter }

func (p *setPtr) AddTo(m *stun.Message) error { return p.s.AddTo(m) }

// "TAIL" is an attribute behind the ones that are meant to come last (a relay that appends): the message decodes, the
// integrity check is specified to ignore it, the fingerprint check may fail on it, and neither may allocate for it
var c20Suffixes = [][]string{{}, {"MI:k20"}, {"MI:k64"}, {"MI:k65"}, {"MI:k200"}, {"FP"}, {"MI:k20", "FP"},
	{"FP", "TAIL"}, {"MI:k20", "TAIL"}, {"MI:k20", "FP", "TAIL"}, {"MI:k20", "FP", "TAIL", "TAIL"}}

type c20Shape struct {
	Kinds  []int    `json:"kinds"`
	Suffix []string `json:"suffix"`
	Op     string   `json:"op,omitempty"`
	Warm   string   `json:"warm,omitempty"`
}

func (s c20Shape) String() string {
	str := ""
	for _, k := range s.Kinds {
		str += c20Plain[k].Name + " "
	}
	return str + fmt.Sprint(s.Suffix)
}

func (s c20Shape) setters() ([]stun.Setter, stun.MessageIntegrity) {
	ss := []stun.Setter{stun.BindingSuccess, stun.NewTransactionIDSetter([12]byte{1, 2, 3})}
	var key stun.MessageIntegrity
	for _, k := range s.Kinds {
		ss = append(ss, c20Plain[k].Setter())
	}
	for _, x := range s.Suffix {
		if x == "FP" {
			ss = append(ss, stun.Fingerprint)
		} else if x == "TAIL" {
			ss = append(ss, stun.RawAttribute{Type: 0x7F02, Value: []byte{9, 8, 7, 6, 5}})
		} else {
			key = c20IntegrityKeys[x[3:]]
			ss = append(ss, &setPtr{key})
		}
	}
	return ss, key
}

type resetReader struct {
	d   []byte
	off int
}

func (r *resetReader) Read(p []byte) (int, error) { n := copy(p, r.d); return n, nil }

// c20Measure returns the operations that allocate for this shape, under the
// given warm-up regime ("same": every buffer was last used for this very
// message; "larger": for a message 64+ bytes larger).
func c20Measure(s c20Shape, warm string, only string) (allocating []string, nops int) {
	setters, key := s.setters()
	built := new(stun.Message)
	if err := built.Build(setters...); err != nil {
		panic("c20: shape does not build: " + err.Error())
	}
	raw := append([]byte(nil), built.Raw...)
	bigger := new(stun.Message)
	_ = bigger.Build(append(append([]stun.Setter{}, setters[:2]...), stun.RawAttribute{Type: 0x7F7F, Value: make([]byte, len(raw)+64)})...)
	m := new(stun.Message)
	if warm == "larger" {
		_, _ = m.Write(bigger.Raw)
	}
	_, _ = m.Write(raw)
	rd := &resetReader{d: raw}
	var (
		uname stun.Username
		realm stun.Realm
		nonce stun.Nonce
		soft  stun.Software
		xaddr stun.XORMappedAddress
		maddr stun.MappedAddress
		alt   stun.AlternateServer
		ecode stun.ErrorCodeAttribute
		uattr stun.UnknownAttributes
	)
	present := map[stun.AttrType]bool{}
	for _, k := range s.Kinds {
		present[c20Plain[k].Attr] = true
	}
	feach := func(mm *stun.Message) error { return nil }
	bm := new(stun.Message)
	if warm == "larger" {
		_ = bm.Build(append(append([]stun.Setter{}, setters[:2]...), stun.RawAttribute{Type: 0x7F7F, Value: make([]byte, len(raw)+64)})...)
	}
	_ = bm.Build(setters...)
	type op struct {
		name string
		f    func()
		base func() // when set: what f does besides the operation under test; only allocations beyond base count
	}
	runt := raw[:len(raw)/2]
	// a shorter message that arrives with other bytes behind it (a stream transport read ahead)
	shortTrail := append(append([]byte(nil), raw[:20]...), 1, 2, 3, 4, 5, 6, 7, 8)
	shortTrail[2], shortTrail[3] = 0, 0
	// a message of the same kinds in which every attribute is as small as it can be: destinations that held the
	// large values keep their storage through it
	small := new(stun.Message)
	{
		ss := append([]stun.Setter{}, setters[:2]...)
		for _, k := range s.Kinds {
			switch a := c20Plain[k].Attr; a {
			case stun.AttrXORMappedAddress:
				ss = append(ss, &stun.XORMappedAddress{IP: net.IPv4(9, 9, 9, 9).To4(), Port: 9})
			case stun.AttrMappedAddress:
				ss = append(ss, &stun.MappedAddress{IP: net.IPv4(9, 9, 9, 9).To4(), Port: 9})
			case stun.AttrAlternateServer:
				ss = append(ss, &stun.AlternateServer{IP: net.IPv4(9, 9, 9, 9).To4(), Port: 9})
			case stun.AttrErrorCode:
				ss = append(ss, &stun.ErrorCodeAttribute{Code: 400})
			default:
				ss = append(ss, stun.RawAttribute{Type: a})
			}
		}
		if err := small.Build(ss...); err != nil {
			panic("c20: minimal shape does not build: " + err.Error())
		}
	}
	ops := []op{
		{"Message.Write", func() { _, _ = m.Write(raw) }, nil},
		// an undecodable datagram (the first half of the message) in between: the warm storage survives it
		{"Message.Write(after an undecodable datagram)", func() { _, _ = m.Write(runt); _, _ = m.Write(raw) }, func() { _, _ = m.Write(runt) }},
		{"Message.Write(after a shorter message with other bytes behind it)", func() { _, _ = m.Write(shortTrail); _, _ = m.Write(raw) }, nil},
		{"Decode(data,m)", func() { _ = stun.Decode(raw, m) }, nil},
		{"Message.ReadFrom", func() { _, _ = m.ReadFrom(rd) }, nil},
		{"Get", func() { _, _ = m.Get(stun.AttrSoftware); _, _ = m.Get(stun.AttrUsername); _, _ = m.Get(0x7777) }, nil},
		{"Contains", func() { _ = m.Contains(stun.AttrFingerprint); _ = m.Contains(0x7777) }, nil},
		{"ForEach", func() { _ = m.ForEach(stun.AttrUsername, feach); _ = m.ForEach(stun.AttrXORMappedAddress, feach) }, nil},
		{"Build(pointer-setters)", func() { _ = bm.Build(setters...) }, nil},
	}
	if present[stun.AttrUsername] {
		ops = append(ops, op{name: "Username.GetFrom", f: func() { _ = uname.GetFrom(m) }})
		ops = append(ops, op{name: "Username.GetFrom(after a message with a minimal one)", f: func() { _ = uname.GetFrom(small); _ = uname.GetFrom(m) }})
	}
	if present[stun.AttrRealm] {
		ops = append(ops, op{name: "Realm.GetFrom", f: func() { _ = realm.GetFrom(m) }})
		ops = append(ops, op{name: "Realm.GetFrom(after a message with a minimal one)", f: func() { _ = realm.GetFrom(small); _ = realm.GetFrom(m) }})
	}
	if present[stun.AttrNonce] {
		ops = append(ops, op{name: "Nonce.GetFrom", f: func() { _ = nonce.GetFrom(m) }})
		ops = append(ops, op{name: "Nonce.GetFrom(after a message with a minimal one)", f: func() { _ = nonce.GetFrom(small); _ = nonce.GetFrom(m) }})
	}
	if present[stun.AttrSoftware] {
		ops = append(ops, op{name: "Software.GetFrom", f: func() { _ = soft.GetFrom(m) }})
		ops = append(ops, op{name: "Software.GetFrom(after a message with a minimal one)", f: func() { _ = soft.GetFrom(small); _ = soft.GetFrom(m) }})
	}
	if present[stun.AttrXORMappedAddress] {
		ops = append(ops, op{name: "XORMappedAddress.GetFrom", f: func() { _ = xaddr.GetFrom(m) }})
		ops = append(ops, op{name: "XORMappedAddress.GetFrom(after a message with a minimal one)", f: func() { _ = xaddr.GetFrom(small); _ = xaddr.GetFrom(m) }})
	}
	if present[stun.AttrMappedAddress] {
		ops = append(ops, op{name: "MappedAddress.GetFrom", f: func() { _ = maddr.GetFrom(m) }})
		ops = append(ops, op{name: "MappedAddress.GetFrom(after a message with a minimal one)", f: func() { _ = maddr.GetFrom(small); _ = maddr.GetFrom(m) }})
	}
	if present[stun.AttrAlternateServer] {
		ops = append(ops, op{name: "AlternateServer.GetFrom", f: func() { _ = alt.GetFrom(m) }})
		ops = append(ops, op{name: "AlternateServer.GetFrom(after a message with a minimal one)", f: func() { _ = alt.GetFrom(small); _ = alt.GetFrom(m) }})
	}
	if present[stun.AttrErrorCode] {
		ops = append(ops, op{name: "ErrorCodeAttribute.GetFrom", f: func() { _ = ecode.GetFrom(m) }})
		ops = append(ops, op{name: "ErrorCodeAttribute.GetFrom(after a message with a minimal one)", f: func() { _ = ecode.GetFrom(small); _ = ecode.GetFrom(m) }})
	}
	if present[stun.AttrUnknownAttributes] {
		ops = append(ops, op{name: "UnknownAttributes.GetFrom", f: func() { _ = uattr.GetFrom(m) }})
		ops = append(ops, op{name: "UnknownAttributes.GetFrom(after a message with a minimal one)", f: func() { _ = uattr.GetFrom(small); _ = uattr.GetFrom(m) }})
	}
	// the batch helper Message.Parse with getters for an attribute the message has and for one it does not have (an
	// optional attribute that is absent is the ordinary case): what the getters do one by one, without allocating,
	// Parse does too
	{
		var absent stun.Getter
		switch {
		case !present[stun.AttrNonce]:
			absent = &nonce
		case !present[stun.AttrRealm]:
			absent = &realm
		case !present[stun.AttrSoftware]:
			absent = &soft
		default:
			absent = &uname
		}
		var have stun.Getter = &ecode
		switch {
		case present[stun.AttrUsername]:
			have = &uname
		case present[stun.AttrRealm]:
			have = &realm
		case present[stun.AttrSoftware]:
			have = &soft
		case present[stun.AttrXORMappedAddress]:
			have = &xaddr
		case present[stun.AttrMappedAddress]:
			have = &maddr
		}
		pair := []stun.Getter{have, absent}
		ops = append(ops, op{name: "Message.Parse(a getter, a getter whose attribute is absent)", f: func() { _ = m.Parse(pair...) }})
		three := []stun.Getter{absent, have, absent}
		ops = append(ops, op{name: "Message.Parse(absent, present, absent)", f: func() { _ = m.Parse(three...) }})
	}
	if key != nil {
		ops = append(ops, op{name: "MessageIntegrity.Check", f: func() { _ = key.Check(m) }})
		wrong := stun.MessageIntegrity("not the key of this message")
		ops = append(ops, op{name: "MessageIntegrity.Check/mismatch", f: func() { _ = wrong.Check(m) }})
		// two keys in turn (two users, an old and a new password): the pooled state changes key on every call
		ops = append(ops, op{name: "MessageIntegrity.Check/alternating-keys", f: func() { _ = key.Check(m); _ = wrong.Check(m) }})
	}
	if len(s.Kinds) >= 2 {
		// forward the message without its first attribute, re-encoding in place: the values handed to Add are
		// views into the message's own buffer
		own := make([]stun.RawAttribute, 0, 64)
		ops = append(ops, op{name: "Add(values that are views into the message itself)", f: func() {
			own = append(own[:0], m.Attributes...)
			m.Reset()
			m.WriteHeader()
			for _, a := range own[1:] {
				m.Add(a.Type, a.Value)
			}
			_, _ = m.Write(raw)
		}})
	}
	fpFails := ""
	if len(s.Suffix) > 0 && s.Suffix[len(s.Suffix)-1] == "TAIL" {
		fpFails = "/mismatch" // (the debug build allocates the error value of a failed check by design)
	}
	for _, x := range s.Suffix {
		if x == "FP" {
			ops = append(ops, op{name: "Fingerprint.Check" + fpFails, f: func() { _ = stun.Fingerprint.Check(m) }})
			if key != nil && fpFails != "" {
				miFP := []stun.Checker{key, stun.Fingerprint}
				ops = append(ops, op{name: "Message.Check(integrity, fingerprint)/mismatch", f: func() { _ = m.Check(miFP...) }})
			} else if key != nil {
				// the batch helper, checkers in both orders (the slices are built once, outside the measurement)
				miFP := []stun.Checker{key, stun.Fingerprint}
				fpMI := []stun.Checker{stun.Fingerprint, key}
				ops = append(ops, op{name: "Message.Check(integrity, fingerprint)", f: func() { _ = m.Check(miFP...) }})
				ops = append(ops, op{name: "Message.Check(fingerprint, integrity)", f: func() { _ = m.Check(fpMI...) }})
			}
		}
	}
	for _, o := range ops {
		if only != "" && o.name != only {
			continue
		}
		if libDebug && (strings.HasSuffix(o.name, "/mismatch") || strings.HasSuffix(o.name, "/alternating-keys")) {
			continue // the debug build returns a failed check as an error VALUE (*IntegrityErr with both MACs): allocated by design
		}
		nops++
		o.f() // warm-up: destination values and buffers have now been used for this message
		var baseline float64
		if o.base != nil {
			o.base()
			baseline = testing.AllocsPerRun(100, o.base)
			o.f()
		}
		if testing.AllocsPerRun(10, o.f) <= baseline {
			continue
		}
		// a non-zero reading must repeat on 5 longer measurements
		stable := true
		for i := 0; i < 5; i++ {
			if testing.AllocsPerRun(100, o.f) <= baseline {
				stable = false
				break
			}
		}
		if stable {
			allocating = append(allocating, o.name)
		}
	}
	return
}

// c20PoolAllocates: n pooled HMAC instances in use at once, returned, taken again.
func c20PoolAllocates(n int, sha256on bool) bool {
	key := []byte("a key of ordinary length")
	held := make([]hash.Hash, n)
	round := func() {
		for i := range held {
			if sha256on {
				held[i] = hmacx.AcquireSHA256(key)
			} else {
				held[i] = hmacx.AcquireSHA1(key)
			}
		}
		for i := range held {
			if sha256on {
				hmacx.PutSHA256(held[i])
			} else {
				hmacx.PutSHA1(held[i])
			}
			held[i] = nil
		}
	}
	for i := 0; i < 4; i++ {
		round()
	}
	if testing.AllocsPerRun(10, round) == 0 {
		return false
	}
	for i := 0; i < 5; i++ {
		if testing.AllocsPerRun(100, round) == 0 {
			return false
		}
	}
	return true
}

// c20Key: without spare capacity both the matching and the mismatching integrity check hit the same call site
// (the HMAC scratch behind the message), so they share one key there.
func c20Key(name, warm string) string {
	if warm == "same" {
		if strings.HasPrefix(name, "Message.Check(") {
			name = "MessageIntegrity.Check" // the batch helper runs that very check: same call site, same scratch
		}
		return "allocates/" + strings.TrimSuffix(strings.TrimSuffix(name, "/mismatch"), "/alternating-keys") + "/only-without-spare-capacity"
	}
	return "allocates/" + name
}

func init() {
	registry["C20"] = propImpl{
		Run: func(c *Ctx) {
			runtime.GOMAXPROCS(1)
			debug.SetGCPercent(-1) // no GC: sync.Pool is never purged, measurements are not disturbed
			maxLen := 2
			if c.Thorough() {
				maxLen = 4
			}
			var item int64
			try := func(s c20Shape) {
				item++
				if item%4000 == 0 {
					runtime.GC() // the collector is off during measurements; the garbage of earlier shapes is dropped here
				}
				if !c.Mine(item) {
					return
				}
				if c.Expired() {
					c.Res.Exhaustive = false
					return
				}
				for _, warm := range []string{"larger", "same"} {
					al, n := c20Measure(s, warm, "")
					c.Eval(int64(n))
					c.DistinctByConstruction += int64(n)
					if len(al) == 0 {
						c.Outcome("zero-alloc/" + warm)
					}
					for _, name := range al {
						c.Outcome("allocates/" + warm)
						key := c20Key(name, warm)
						ss := s
						ss.Op, ss.Warm = name, warm
						c.Violation(key, fmt.Sprintf("%s allocates on every call in steady state (warm-up: %s) for message [%v]", name, warm, s), ss)
					}
				}
				if item%211 == 5 {
					c.Sample(s.String())
				}
			}
			var kinds []int
			var rec func()
			rec = func() {
				for _, suf := range c20Suffixes {
					try(c20Shape{Kinds: append([]int(nil), kinds...), Suffix: suf})
				}
				if len(kinds) == maxLen {
					return
				}
				for k := range c20Plain {
					kinds = append(kinds, k)
					rec()
					kinds = kinds[:len(kinds)-1]
				}
			}
			rec()
			// each kind repeated 16 times
			for k := range c20Plain {
				ks := make([]int, 16)
				for i := range ks {
					ks[i] = k
				}
				try(c20Shape{Kinds: ks, Suffix: []string{"MI:k20", "FP"}})
			}
			// the HMAC pool behind the integrity operations, with n instances held at once (what n integrity checks
			// in flight at the same time hold), all returned, all taken again: steady state allocates nothing
			if c.Shard == 0 {
				for _, n := range []int{1, 2, 4, 5, 8, 16, 64} {
					for _, sha256on := range []bool{false, true} {
						c.Eval(1)
						c.DistinctByConstruction++
						if c20PoolAllocates(n, sha256on) {
							c.Outcome("allocates/pool")
							c.Violation("allocates/hmac-pool-with-several-instances-in-use", fmt.Sprintf("holding %d pooled HMAC instances at once (sha256=%v), returning them and taking them again allocates on every round in steady state", n, sha256on), c20Shape{Op: "pool", Kinds: []int{n}, Warm: fmt.Sprint(sha256on)})
						} else {
							c.Outcome("zero-alloc/pool")
						}
					}
				}
			}
			c.Extra("max_list_length", float64(maxLen))
			c.Extra("go_version", runtime.Version())
		},
		Replay: func(c *Ctx, p json.RawMessage) {
			runtime.GOMAXPROCS(1)
			debug.SetGCPercent(-1)
			var s c20Shape
			if err := json.Unmarshal(p, &s); err != nil {
				c.Fail("%v", err)
			}
			if s.Op == "pool" {
				if c20PoolAllocates(s.Kinds[0], s.Warm == "true") {
					c.Violation("allocates/hmac-pool-with-several-instances-in-use", "allocates", s)
				}
				return
			}
			al, _ := c20Measure(s, s.Warm, s.Op)
			for _, name := range al {
				key := c20Key(name, s.Warm)
				c.Violation(key, name+" allocates", s)
			}
		},
	}
}
