package main

import (
	"bytes"
	"encoding/hex"
	"encoding/json"
	"errors"
	"fmt"
	"unsafe"

	stun "github.com/pion/stun/v3"

	"verif/ref"
)

// C02: the decoder accepts exactly RFC 5389 framing and reports its TLV list;
// Get / Contains / ForEach.

var errC02Stop = errors.New("c02 stop")

// c02Check decodes in with the library and with the reference parser and
// compares. It returns (key, detail) of the first disagreement.
func c02Check(in []byte, m *stun.Message) (outcome, key, detail string) {
	if p := catch(func() {
		// a fresh Message, then a Message that has just held another message (the read loops of the library
		// reuse one Message without Reset): what the earlier message left behind must not show
		*m = stun.Message{}
		outcome, key, detail = c02Check1(in, m)
		if key == "" {
			m.Raw = append(m.Raw[:0:0], c01Big...)
			if err := m.Decode(); err != nil {
				key, detail = "harness", "priming message does not decode"
				return
			}
			var k2, d2 string
			if _, k2, d2 = c02Check1(in, m); k2 != "" {
				key, detail = k2+"/reused-message", "after the Message held another message: "+d2
				return
			}
			// the other decode entry points, each on a Message that has just held another datagram (one per input,
			// rotating; all four for inputs of at most 24 bytes)
			// the copying entry points into a Message that has no storage yet (nothing to copy into: they must allocate)
			// (not ReadFrom: it reads into the storage the Message has, and documents that)
			for e := 2; e <= 4; e++ {
				if len(in) > 24 && e != 2+(len(in)+int(in[0]))%3 && c02Prev == nil {
					continue
				}
				*m = stun.Message{}
				c02Entry = e
				_, k2, d2 = c02Check1(in, m)
				c02Entry = 0
				if k2 != "" {
					key, detail = k2+"/fresh-message/"+c02EntryNames[e], "through "+c02EntryNames[e]+" into a Message without storage: "+d2
					return
				}
			}
			prev := c01Big
			if c02Prev != nil {
				prev = c02Prev
			}
			for e := 1; e <= 7; e++ {
				if len(in) > 24 && e != 1+(len(in)+int(in[len(in)-1]))%7 && c02Prev == nil {
					continue
				}
				m.Raw = append(make([]byte, 0, len(in)+len(prev)), prev...)
				if err := m.Decode(); err != nil && c02Prev == nil {
					key, detail = "harness", "priming message does not decode"
					return
				}
				c02Entry = e
				_, k2, d2 = c02Check1(in, m)
				c02Entry = 0
				if k2 != "" {
					key, detail = k2+"/reused-message/"+c02EntryNames[e], "through "+c02EntryNames[e]+" after the Message held another message: "+d2
					return
				}
				// the very same datagram once more into the same Message (a re-transmission, accepted or refused the
				// first time): the verdict is a function of the bytes, not of having seen them before
				c02Entry = e
				_, k2, d2 = c02Check1(in, m)
				c02Entry = 0
				if k2 != "" {
					key, detail = k2+"/same-datagram-again/"+c02EntryNames[e], "through "+c02EntryNames[e]+", the same datagram for the second time into the same Message: "+d2
					return
				}
			}
		}
	}); p != "" {
		return "", "panic", fmt.Sprintf("%s on %x", p, clip(in))
	}
	return
}

// c02Prev, when set, is what the reused Message held before the input (see sweepPrefixAfterFull).
var c02Prev []byte

// c02Entry selects the decode entry point of c02Check1 (0: Message.Decode on Raw = input).
var c02Entry int

var c02EntryNames = []string{"Message.Decode", "ReadFrom", "Write", "Decode(data,m)", "UnmarshalBinary",
	"CloneTo", "CloneTo/after-the-source's-own-decode-attempt", "CloneTo/inside-ForEach-of-the-source"}

func c02Check1(in []byte, m *stun.Message) (outcome, key, detail string) {
	want, why := ref.Parse(in)
	// the copying entry points get a buffer of the caller (same length AND capacity as the input, with whatever lies
	// behind it) which the caller overwrites as soon as the call returns
	caller := make([]byte, cap(in))
	copy(caller, in[:cap(in)])
	caller = caller[:len(in)]
	var err error
	switch c02Entry {
	case 0:
		m.Raw = in
		err = m.Decode()
	case 1:
		_, err = m.ReadFrom(&udpReader{d: caller})
	case 2:
		_, err = m.Write(caller)
	case 3:
		err = stun.Decode(caller, m)
	case 4:
		err = m.UnmarshalBinary(caller)
	case 5:
		err = (&stun.Message{Raw: append([]byte(nil), in...)}).CloneTo(m)
	case 6:
		src := &stun.Message{Raw: append([]byte(nil), in...)}
		_ = src.Decode() // may fail part-way: the source then holds a partial attribute list
		err = src.CloneTo(m)
	case 7:
		src := &stun.Message{Raw: append([]byte(nil), in...)}
		called := false
		if src.Decode() == nil && len(src.Attributes) >= 2 {
			_ = src.ForEach(src.Attributes[len(src.Attributes)-1].Type, func(mm *stun.Message) error {
				if !called {
					called = true
					err = mm.CloneTo(m)
				}
				return nil
			})
		}
		if !called {
			err = src.CloneTo(m)
		}
	}
	if c02Entry >= 1 && c02Entry <= 4 {
		for i := range caller[:cap(caller)] {
			caller[:cap(caller)][i] ^= 0xA5
		}
	}
	if (err == nil) != (want != nil) {
		if want == nil {
			return "", "accepts-nonconforming/" + why, fmt.Sprintf("Decode accepted bytes the RFC framing rejects (%s): %x", why, clip(in))
		}
		return "", "rejects-conforming", fmt.Sprintf("Decode rejected a well-framed message (%v): %x", err, clip(in))
	}
	if want == nil {
		return "reject/" + why, "", ""
	}
	if uint16(m.Type.Method) != want.Method || uint8(m.Type.Class) != want.Class {
		return "", "type", fmt.Sprintf("type %v, reference method %#x class %d: %x", m.Type, want.Method, want.Class, clip(in))
	}
	if int(m.Length) != want.Length {
		return "", "length", fmt.Sprintf("Length %d, reference %d", m.Length, want.Length)
	}
	if m.TransactionID != want.TID {
		return "", "tid", fmt.Sprintf("TransactionID %x, reference %x", m.TransactionID, want.TID)
	}
	if len(m.Attributes) != len(want.Attrs) {
		return "", "attr-count", fmt.Sprintf("%d attributes, reference %d: %x", len(m.Attributes), len(want.Attrs), clip(in))
	}
	for i, a := range m.Attributes {
		w := want.Attrs[i]
		if uint16(a.Type) != ref.CanonType(w.Type) || int(a.Length) != w.Len || !bytes.Equal(a.Value, w.Value) {
			return "", "attr-content", fmt.Sprintf("attribute %d is (%#x,%d,%x), reference (%#x,%d,%x): %x", i, uint16(a.Type), a.Length, a.Value, ref.CanonType(w.Type), w.Len, w.Value, clip(in))
		}
	}
	// Get / Contains / ForEach on every type present plus one absent type.
	seen := map[uint16]bool{}
	typesToTry := []uint16{0x7777}
	for _, w := range want.Attrs {
		t := ref.CanonType(w.Type)
		if !seen[t] {
			seen[t] = true
			typesToTry = append(typesToTry, t)
		}
	}
	for _, t := range typesToTry {
		var idxs []int
		for i, w := range want.Attrs {
			if ref.CanonType(w.Type) == t {
				idxs = append(idxs, i)
			}
		}
		if m.Contains(stun.AttrType(t)) != (len(idxs) > 0) {
			return "", "contains", fmt.Sprintf("Contains(%#x)=%v with %d such attributes: %x", t, !(len(idxs) > 0), len(idxs), clip(in))
		}
		v, gerr := m.Get(stun.AttrType(t))
		ra, ok := m.Attributes.Get(stun.AttrType(t))
		if len(idxs) == 0 {
			if gerr == nil || ok {
				return "", "get-absent", fmt.Sprintf("Get(%#x) succeeded on a message without it", t)
			}
		} else {
			first := want.Attrs[idxs[0]]
			if gerr != nil || !ok || !bytes.Equal(v, first.Value) || !bytes.Equal(ra.Value, first.Value) ||
				(first.Len > 0 && (unsafe.SliceData(v) != &m.Raw[first.Off] || unsafe.SliceData(ra.Value) != &m.Raw[first.Off])) {
				return "", "get-first", fmt.Sprintf("Get(%#x) = %x,%v; first attribute of that type is %x at offset %d: %x", t, v, gerr, first.Value, first.Off, clip(in))
			}
		}
		// ForEach: visits exactly idxs in order; Get inside the callback gives the current one.
		before := m.Attributes
		visit := 0
		bad := ""
		ferr := m.ForEach(stun.AttrType(t), func(mm *stun.Message) error {
			if visit < len(idxs) {
				cur := want.Attrs[idxs[visit]]
				gv, e := mm.Get(stun.AttrType(t))
				if e != nil || !bytes.Equal(gv, cur.Value) || (cur.Len > 0 && unsafe.SliceData(gv) != &m.Raw[cur.Off]) {
					bad = fmt.Sprintf("visit %d saw %x, want attribute at offset %d (%x)", visit, gv, cur.Off, cur.Value)
				}
			}
			visit++
			return nil
		})
		if ferr != nil || visit != len(idxs) || bad != "" {
			return "", "foreach-visits", fmt.Sprintf("ForEach(%#x): %d visits (want %d), err %v %s: %x", t, visit, len(idxs), ferr, bad, clip(in))
		}
		if !sameAttrSlice(before, m.Attributes) {
			return "", "foreach-restore", fmt.Sprintf("ForEach(%#x) changed m.Attributes (len %d -> %d)", t, len(before), len(m.Attributes))
		}
		for k := 0; k < len(idxs); k++ {
			visit = 0
			ferr = m.ForEach(stun.AttrType(t), func(mm *stun.Message) error {
				visit++
				if visit-1 == k {
					return errC02Stop
				}
				return nil
			})
			if ferr != errC02Stop || visit != k+1 {
				return "", "foreach-error", fmt.Sprintf("ForEach(%#x) with callback failing at visit %d: err=%v visits=%d", t, k, ferr, visit)
			}
			if !sameAttrSlice(before, m.Attributes) {
				return "", "foreach-restore-on-error", fmt.Sprintf("ForEach(%#x) with callback failing at visit %d left m.Attributes with len %d (was %d): %x", t, k, len(m.Attributes), len(before), clip(in))
			}
		}
	}
	return fmt.Sprintf("accept/attrs=%d", len(want.Attrs)), "", ""
}

func sameAttrSlice(a, b stun.Attributes) bool {
	return len(a) == len(b) && cap(a) == cap(b) && unsafe.SliceData(a) == unsafe.SliceData(b)
}

func clip(b []byte) []byte {
	if len(b) > 96 {
		return b[:96]
	}
	return b
}

func init() {
	registry["C02"] = propImpl{
		Run: func(c *Ctx) {
			c.startWatchdog(10e9)
			bd, ba := 24, 7
			if c.Thorough() {
				bd, ba = 32, 9
			}
			m := new(stun.Message)
			wc := &watchCase{Key: "hang"}
			visit := func(in *decodeInput, seq int64) {
				c.Eval(1)
				c.DistinctBytes(in.Bytes)
				wc.Detail, wc.Replay = "Decode does not return", in.replay()
				c.Watch(wc)
				outcome, key, detail := c02Check(in.Bytes, m)
				if key != "" {
					c.Violation(key, detail, in.replay())
					return
				}
				c.Outcome(in.Fam + ":" + outcome)
				if seq%1009 == 5 && in.Fam == "lenstruct" && len(in.Bytes) > 24 {
					c.Sample(map[string]interface{}{"input_hex": hex.EncodeToString(in.Bytes), "oracle": outcome})
				}
			}
			sweepLengthStructures(c, bd, true, visit)
			sweepTinyBodies(c, ba, visit)
			sweepLarge(c, visit)
			sweepTypes(c, visit)
			sweepShort(c, visit)
			sweepMsgTypes(c, visit)
			sweepLongTail(c, visit)
			sweepPrefixAfterFull(c, func(in *decodeInput, seq int64) {
				c02Prev = in.Prev
				visit(in, seq)
				c02Prev = nil
			})
			sweepFullAfterPrefix(c, func(in *decodeInput, seq int64) {
				c02Prev = in.Prev
				visit(in, seq)
				c02Prev = nil
			})
			sweepPrefixInRoomySlice(c, func(in *decodeInput, seq int64) {
				c02Prev = c01Big // (every entry point, not the rotating one)
				visit(in, seq)
				c02Prev = nil
			})
			// all 65536 message type words in front of a fixed two-attribute body
			body := ref.Encode(0, [12]byte{1, 2, 3, 4, 5, 6, 7, 8, 9, 10, 11, 12}, []ref.EncodeAttr{{Type: 0x8020, Value: []byte{1, 2, 3}}, {Type: 0x0020, Value: []byte{9}}})
			in := &decodeInput{Fam: "typeword"}
			for w := 0; w < 65536; w++ {
				if !c.Mine(int64(w)) {
					continue
				}
				body[0], body[1] = byte(w>>8), byte(w)
				in.Bytes = body
				visit(in, int64(w))
			}
			c.Watch(nil)
			if c.Expired() {
				c.Res.Exhaustive = false
			}
			c.Extra("body_bound_bytes", float64(bd))
			c.Extra("tiny_alphabet_body_bytes", float64(ba))
		},
		Replay: func(c *Ctx, p json.RawMessage) {
			c.startWatchdog(5e9)
			var r struct {
				Hex, Prev, Behind string
				Roomy             bool
			}
			if err := json.Unmarshal(p, &r); err != nil {
				c.Fail("%v", err)
			}
			b, _ := hex.DecodeString(r.Hex)
			if r.Prev != "" {
				c02Prev, _ = hex.DecodeString(r.Prev)
			}
			if r.Behind != "" {
				bh, _ := hex.DecodeString(r.Behind)
				b = append(b, bh...)[:len(b)]
				if r.Roomy {
					c02Prev = c01Big
				}
			}
			wc := &watchCase{Key: "hang", Detail: "Decode does not return", Replay: map[string]interface{}{"hex": r.Hex}}
			c.Watch(wc)
			_, key, detail := c02Check(b, new(stun.Message))
			c.Watch(nil)
			if key != "" {
				c.Violation(key, detail, map[string]interface{}{"hex": r.Hex})
			}
		},
	}
}
