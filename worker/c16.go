package main

import (
	"bufio"
	"encoding/json"
	"fmt"
	"os"
	"os/exec"
	"runtime"
	"runtime/debug"
	"strconv"
	"strings"
	"sync/atomic"
	"time"

	stun "github.com/pion/stun/v3"
)

// C16: ParseURI terminates safely on every string.
//
// The failure this property is about (unbounded recursion) is a fatal stack
// overflow that cannot be recovered, so strings are parsed in child processes
// with a capped stack; the parent bisects a crashing or hanging batch down to
// one string.

var c16Sigma = []string{":", "[", "]", "?", "=", "&", "%", "/", "@", "#", ".", "-", "+", "0", "9", "a", "x", " ", "\x00", "é"}
var c16Prefixes = []string{"stun:", "stuns:", "turn:", "turns:", "", "STUN:", "stun://"}

// c16String returns string number idx (0-based) of the enumeration of all
// strings over Sigma of length <= maxLen in length-then-lexicographic order.
func c16String(idx int64, maxLen int) string {
	n := int64(len(c16Sigma))
	l := 0
	cnt := int64(1)
	for idx >= cnt {
		idx -= cnt
		cnt *= n
		l++
	}
	sym := make([]string, l)
	for i := l - 1; i >= 0; i-- {
		sym[i] = c16Sigma[idx%n]
		idx /= n
	}
	return strings.Join(sym, "")
}

func c16Count(maxLen int) int64 {
	n := int64(len(c16Sigma))
	total, cnt := int64(0), int64(1)
	for l := 0; l <= maxLen; l++ {
		total += cnt
		cnt *= n
	}
	return total
}

// c16Long is the deterministic long family.
var c16LongCache []string

func c16Long() []string {
	if c16LongCache != nil {
		return c16LongCache
	}
	out := c16LongBuild()
	c16LongCache = out
	return out
}

func c16LongBuild() []string {
	var out []string
	for _, p := range []string{"stun:", "turns:"} {
		for _, s := range c16Sigma {
			out = append(out, p+strings.Repeat(s, 100000))
			// the same after a complete host, host:port and bracketed host
			out = append(out, p+"a"+strings.Repeat(s, 100000))
			out = append(out, p+"a:1"+strings.Repeat(s, 100000))
			out = append(out, p+"[::1]:1"+strings.Repeat(s, 30000))
			out = append(out, p+"a:1?transport=udp"+strings.Repeat(s, 30000))
		}
		for _, n := range []int{1, 2, 3, 10, 1000, 100000} {
			out = append(out, p+strings.Repeat("[", n)+strings.Repeat("]", n))
			out = append(out, p+strings.Repeat("[", n)+strings.Repeat("]", n)+"x")
			out = append(out, p+strings.Repeat("[]", n))
			out = append(out, p+strings.Repeat("[]", n)+":1")
			out = append(out, p+strings.Repeat("a:", n))
			out = append(out, p+"[::1]"+strings.Repeat("x", n))
			out = append(out, p+"h"+strings.Repeat("?", n))
			out = append(out, p+"h?"+strings.Repeat("transport=udp&", n))
			out = append(out, p+"h:"+strings.Repeat("9", n))
			out = append(out, p+strings.Repeat("%", n)+":1")
			out = append(out, p+"[::1%25"+strings.Repeat("z", n)+"]")
		}
	}
	return out
}

// c16Literals are string constants: their bytes live in the read-only data of the binary, as the URIs of most
// callers do (configuration constants). Every enumerated string above is built at run time (heap).
var c16Literals = []string{
	"stun:EXAMPLE.ORG:3478",
	"stun:Example.org",
	"stuns:Example.ORG:5349",
	"turn:EXAMPLE.org:3478?transport=tcp",
	"turn:Example.org?transport=udp",
	"turns:TURN.Example.Org:443?transport=tcp",
	"TURN:example.org:3478",
	"Stun:Example.Org:3478",
	"stun:[2001:DB8::1]:3478",
	"stun:[FE80::1%25eth0]:3478",
	"turn:[2001:DB8::FF]?transport=TCP",
	"turn:example.org:3478?transport=TCP",
	"turn:example.org:3478?TRANSPORT=udp",
	"stun:A:1",
	"stun:a:1",
	"stun:example.org:3478",
	"stun:xn--Bcher-kva.example:3478",
	"stun:EXAMPLE.ORG:99999",
	"stun:EXAMPLE.ORG:",
	"stun:EXAMPLE.ORG:3478?x",
	"http:EXAMPLE.ORG:80",
	"stun://EXAMPLE.ORG:3478",
	"stun:%41BC:3478",
	"stun:[EXAMPLE]:3478",
}

// Slot family: an otherwise valid URI with one component replaced by every string of at most 4 tokens from a set
// that reaches what the symbol alphabet cannot within its length bound: percent escapes that decode to invalid
// UTF-8 or to letters, raw invalid bytes, letters whose lower-case form is longer than they are, upper case,
// numbers beyond 64 bits.
var c16Tokens = []string{"%a0", "%FF", "%41", "\xff", "\u023a", "\u00e9", "U", "d", "p", "%", "=", "&", "0", "99999999999999999999", "-", "[", ":", "xn--", "."}
var c16Templates = [][2]string{
	{"turn:h?transport=", ""},
	{"turns:h:1?transport=", ""},
	{"turn:h?", "=udp"},
	{"turn:", ":3478?transport=udp"},
	{"stun:h:", ""},
	{"", ":h:1"},
	{"turn:[", "]:1"},
}

const c16SlotLen = 4

// Inputs that quote the parsers underneath: the texts of the errors net/url and net produce (a URI pasted from a log
// line, an error message typed where a URI belongs). A parser that classifies an error by its text finds its keyword
// in the input it echoes.
var c16ErrorTexts = []string{
	"first path segment in URL cannot contain colon", "missing protocol scheme", "invalid port", "invalid URL escape",
	"invalid character in host name", "invalid userinfo", "invalid control character in URL", "missing ']' in address",
	"too many colons in address", "missing port in address", "unexpected '[' in address", "unexpected ']' in address",
	"invalid host", "empty url", "no such host", "unknown port",
}

func c16Quoting() []string {
	var out []string
	for _, e := range c16ErrorTexts {
		for _, p := range []string{"", "stun:", "turn:", "1.2.3.4:80 ", "parse \"1.2.3.4:3478\": "} {
			for _, suf := range []string{"", "\n", ":3478", "?transport=udp"} {
				out = append(out, p+e+suf)
			}
		}
	}
	return out
}

// Pair repeats: a letter and a symbol, n times (n labels, n ports, n brackets, n escapes): what a parser does once per
// delimiter it does n times, and if it does it by calling itself its stack is n frames deep. Generated on demand (the
// longest are 2 MB).
var c16PairNs = []int{1000, 100000, 1000000}

func c16PairCount() int64 { return int64(2 * len(c16Sigma) * len(c16PairNs) * 2) }

func c16PairItem(j int64) string {
	n := c16PairNs[j%int64(len(c16PairNs))]
	j /= int64(len(c16PairNs))
	sym := c16Sigma[j%int64(len(c16Sigma))]
	j /= int64(len(c16Sigma))
	order := j % 2
	prefix := []string{"stun:", "turns:"}[j/2%2]
	unit := "a" + sym
	if order == 1 {
		unit = sym + "a"
	}
	return prefix + strings.Repeat(unit, n)
}

// Medium lengths: between what the symbol enumeration reaches (7) and the 30000-100000 of the long family lie the
// sizes at which implementations switch paths (stack scratch, pooled buffers, previews cut to n characters). One
// symbol - one to four bytes long - repeated n times, n from a ladder around the powers of two, in six positions.
var c16MediumCache []string

func c16Medium() []string {
	if c16MediumCache != nil {
		return c16MediumCache
	}
	var out []string
	syms := append(append([]string{}, c16Sigma...), "\u4f8b", "\U0001F600")
	for _, s := range syms {
		for _, n := range []int{8, 16, 31, 32, 33, 43, 63, 64, 65, 100, 127, 128, 129, 200, 255, 256, 257, 511, 512, 513, 1000, 1023, 1024, 1025, 2047, 2048, 2049, 4096} {
			x := strings.Repeat(s, n)
			out = append(out, "stun:"+x, "stun:"+x+":x", "turn:"+x+"?transport=zzz", "stun:h:"+x, "turn:h?transport="+x, "stun:["+x+"]", "turns:a"+x+".example", "turn:a"+x+".example?transport=tcp")
		}
	}
	c16MediumCache = out
	return out
}

// IPv6 literal family: every textual shape of an IPv6 address with up to 6 groups from a small group alphabet, with
// the "::" compression at every position or absent, with and without a trailing dotted quad, in a bare and in a
// complete URI. (Prefixes such as "::ffff:" mean something only at one position; the shapes put them everywhere.)
var c16V6Groups = []string{"0", "1", "ffff", "FFFF"}
var c16V6Cache []string

func c16V6() []string {
	if c16V6Cache != nil {
		return c16V6Cache
	}
	var out []string
	var groups []string
	emit := func() {
		n := len(groups)
		for cp := -1; cp <= n; cp++ {
			var text string
			if cp < 0 {
				text = strings.Join(groups, ":")
			} else {
				text = strings.Join(groups[:cp], ":") + "::" + strings.Join(groups[cp:], ":")
			}
			for _, tail := range []string{"", "192.0.2.1"} {
				t := text
				if tail != "" {
					if t != "" && !strings.HasSuffix(t, ":") {
						t += ":"
					}
					t += tail
				}
				out = append(out, "stun:["+t+"]", "turn:["+t+"]:3478?transport=udp")
			}
		}
	}
	var rec func()
	rec = func() {
		emit()
		if len(groups) == 6 {
			return
		}
		for _, g := range c16V6Groups {
			groups = append(groups, g)
			rec()
			groups = groups[:len(groups)-1]
		}
	}
	rec()
	c16V6Cache = out
	return out
}

func c16SlotCount() int64 {
	n, cnt, total := int64(len(c16Tokens)), int64(1), int64(0)
	for l := 0; l <= c16SlotLen; l++ {
		total += cnt
		cnt *= n
	}
	return total * int64(len(c16Templates))
}

func c16SlotItem(i int64) string {
	per := c16SlotCount() / int64(len(c16Templates))
	t := c16Templates[i/per]
	idx := i % per
	n := int64(len(c16Tokens))
	l, cnt := 0, int64(1)
	for idx >= cnt {
		idx -= cnt
		cnt *= n
		l++
	}
	toks := make([]string, l)
	for k := l - 1; k >= 0; k-- {
		toks[k] = c16Tokens[idx%n]
		idx /= n
	}
	return t[0] + strings.Join(toks, "") + t[1]
}

// c16Item maps a global item index to the string to parse.
// Items [0, P*count) are prefix-major exhaustive strings, then the long family.
func c16Item(i int64, maxLen int) string {
	cnt := c16Count(maxLen)
	p := i / cnt
	if p < int64(len(c16Prefixes)) {
		return c16Prefixes[p] + c16String(i%cnt, maxLen)
	}
	long := c16Long()
	j := i - cnt*int64(len(c16Prefixes))
	if j < int64(len(long)) {
		return long[j]
	}
	j -= int64(len(long))
	if j < int64(len(c16Literals)) {
		return c16Literals[j] // the constant itself
	}
	j -= int64(len(c16Literals))
	if j < int64(len(c16Literals)) {
		return strings.Clone(c16Literals[j]) // and a heap copy of it
	}
	j -= int64(len(c16Literals))
	if j < c16SlotCount() {
		return c16SlotItem(j)
	}
	j -= c16SlotCount()
	if j < int64(len(c16V6())) {
		return c16V6()[j]
	}
	j -= int64(len(c16V6()))
	if q := c16Quoting(); j < int64(len(q)) {
		return q[j]
	} else {
		j -= int64(len(q))
	}
	if j < c16PairCount() {
		return c16PairItem(j)
	}
	j -= c16PairCount()
	// the medium family twice: in a process that has done nothing else with the library, and (second copy) after
	// the process has used every other part of it (see c16AfterActivityFrom)
	return c16Medium()[j%int64(len(c16Medium()))]
}

// c16AfterActivityFrom: items from this index on are parsed after the child process has performed every noise
// activity (encoders, decoders, HMAC pools, an agent, a client that re-transmits): what ParseURI does must not
// depend on what other parts of the library left in package-level pools.
func c16AfterActivityFrom(maxLen int) int64 {
	return c16Total(maxLen) - int64(len(c16Medium()))
}

func c16Total(maxLen int) int64 {
	return c16Count(maxLen)*int64(len(c16Prefixes)) + int64(len(c16Long())) + 2*int64(len(c16Literals)) + c16SlotCount() + int64(len(c16V6())) + int64(len(c16Quoting())) + c16PairCount() + 2*int64(len(c16Medium()))
}

// uriInvariants checks what C16/C17 demand of any single ParseURI result.
func uriInvariants(s string, u *stun.URI, err error) string {
	if (u == nil) == (err == nil) {
		return fmt.Sprintf("ParseURI(%q) returned uri=%v err=%v", s, u, err)
	}
	return ""
}

func init() {
	// child: -child c16:<maxLen>:<start>:<end>  prints "P <idx>" progress and "V <idx> <msg>" lines.
	childFuncs["c16"] = func(c *Ctx, arg string) {
		debug.SetMaxStack(16 << 20)
		runtime.GOMAXPROCS(1) // one P: what an earlier call left in a sync.Pool is what the next call finds (replays agree)
		f := strings.Split(arg, ":")
		maxLen, _ := strconv.Atoi(f[0])
		start, _ := strconv.ParseInt(f[1], 10, 64)
		end, _ := strconv.ParseInt(f[2], 10, 64)
		w := bufio.NewWriter(os.Stdout)
		var cur atomic.Int64
		cur.Store(start)
		go func() { // hang watchdog: 8 s without progress on one string
			last, same := int64(-1), 0
			for {
				time.Sleep(2 * time.Second)
				v := cur.Load()
				if v == last {
					same++
					if same >= 4 {
						fmt.Fprintf(os.Stderr, "HANG %d\n", v)
						os.Exit(3)
					}
				} else {
					last, same = v, 0
				}
			}
		}()
		acc := 0
		cnt := c16Count(maxLen)
		active, activeFrom := false, c16AfterActivityFrom(maxLen)
		for i := start; i < end; i++ {
			cur.Store(i)
			if i >= activeFrom && !active {
				active = true
				for k := 0; k < noiseKinds; k++ {
					runNoise(k)
				}
			}
			if (i-start)%4096 == 0 {
				fmt.Fprintf(w, "P %d\n", i)
				w.Flush()
			}
			var s string
			if p := i / cnt; p < int64(len(c16Prefixes)) {
				s = c16Prefixes[p] + c16String(i%cnt, maxLen)
			} else {
				s = c16Item(i, maxLen)
			}
			keep := strings.Clone(s)
			var u *stun.URI
			var err error
			if p := catch(func() { u, err = stun.ParseURI(s) }); p != "" {
				fmt.Fprintf(w, "V %d %s\n", i, p)
				continue
			}
			if s != keep {
				fmt.Fprintf(w, "V %d the argument string was modified: now %q\n", i, s)
			}
			if msg := uriInvariants(s, u, err); msg != "" {
				fmt.Fprintf(w, "V %d %s\n", i, msg)
			}
			if u != nil {
				acc++
			}
		}
		fmt.Fprintf(w, "D %d %d\n", end, acc)
		w.Flush()
	}

	registry["C16"] = propImpl{
		Run: func(c *Ctx) {
			maxLen := 5
			if c.Thorough() {
				maxLen = 7
			}
			total := c16Total(maxLen)
			const batch = 1 << 17
			nb := (total + batch - 1) / batch
			for b := int64(0); b < nb; b++ {
				if !c.Mine(b) {
					continue
				}
				if c.Expired() || c16Stop {
					c.Res.Exhaustive = false
					break
				}
				lo, hi := b*batch, (b+1)*batch
				if hi > total {
					hi = total
				}
				c16Range(c, maxLen, lo, hi)
			}
			c.Extra("alphabet", c16Sigma)
			c.Extra("prefixes", c16Prefixes)
			c.Extra("max_length_after_prefix", float64(maxLen))
			c.Extra("long_family", float64(len(c16Long())))
		},
		Replay: func(c *Ctx, p json.RawMessage) {
			var r struct {
				S      string  `json:"s"`
				Range  []int64 `json:"range"`
				MaxLen int     `json:"maxlen"`
			}
			if err := json.Unmarshal(p, &r); err != nil {
				c.Fail("%v", err)
			}
			if len(r.Range) == 2 {
				exe, _ := os.Executable()
				if c16Crashes(exe, r.MaxLen, r.Range[0], r.Range[1]) {
					c.Violation("process-crash/after-earlier-calls", fmt.Sprintf("parsing items %d..%d of the enumeration in one process kills it", r.Range[0], r.Range[1]), r)
				}
				return
			}
			c16One(c, r.S)
		},
	}
	childFuncs["c16one"] = func(c *Ctx, arg string) {
		debug.SetMaxStack(16 << 20)
		b, _ := os.ReadFile(arg)
		s := string(b)
		go func() { time.Sleep(8 * time.Second); fmt.Fprintln(os.Stderr, "HANG"); os.Exit(3) }()
		var u *stun.URI
		var err error
		if strings.HasPrefix(arg, "@") {
			j, _ := strconv.Atoi(arg[1:])
			s = strings.Clone(c16Literals[j])
			keep := strings.Clone(s)
			if p := catch(func() { _, _ = stun.ParseURI(s) }); p == "" && s != keep {
				fmt.Printf("V 0 the argument string was modified: now %q\n", s)
				return
			}
			s = c16Literals[j]
		}
		keep := strings.Clone(s)
		if p := catch(func() { u, err = stun.ParseURI(s) }); p != "" {
			fmt.Printf("V 0 %s\n", p)
			return
		}
		if s != keep {
			fmt.Printf("V 0 the argument string was modified: now %q\n", s)
			return
		}
		if msg := uriInvariants(s, u, err); msg != "" {
			fmt.Printf("V 0 %s\n", msg)
		}
		fmt.Println("D 1 0")
	}
}

// c16One parses a single string in a child process.
func c16One(c *Ctx, s string) {
	tmp, err := os.CreateTemp("", "c16-*.txt")
	if err != nil {
		c.Fail("%v", err)
	}
	defer os.Remove(tmp.Name())
	tmp.WriteString(s)
	tmp.Close()
	exe, _ := os.Executable()
	arg := "c16one:" + tmp.Name()
	for j, l := range c16Literals {
		if l == s {
			arg = fmt.Sprintf("c16one:@%d", j) // parse the constant itself, then a heap copy
		}
	}
	cmd := exec.Command(exe, "-child", arg)
	out, runErr := cmd.CombinedOutput()
	c.Eval(1)
	if runErr != nil {
		c.Violation(c16CrashKey(string(out)), fmt.Sprintf("ParseURI(%s) kills the process: %s", quoteClip(s), c16CrashLine(string(out))), map[string]string{"s": s})
		return
	}
	for _, l := range strings.Split(string(out), "\n") {
		if strings.HasPrefix(l, "V ") {
			c.Violation("panic-or-bad-result", fmt.Sprintf("ParseURI(%s): %s", quoteClip(s), l[2:]), map[string]string{"s": s})
		}
	}
}

func quoteClip(s string) string {
	if len(s) > 80 {
		return fmt.Sprintf("%q...(%d bytes)", s[:80], len(s))
	}
	return fmt.Sprintf("%q", s)
}

func c16CrashKey(out string) string {
	switch {
	case strings.Contains(out, "stack overflow") || strings.Contains(out, "stack exceeds"):
		return "unbounded-recursion"
	case strings.Contains(out, "HANG"):
		return "hang"
	case strings.Contains(out, "out of memory"):
		return "out-of-memory"
	}
	return "process-crash"
}

func c16CrashLine(out string) string {
	for _, l := range strings.Split(out, "\n") {
		if strings.Contains(l, "fatal error") || strings.Contains(l, "HANG") || strings.Contains(l, "stack exceeds") {
			return strings.TrimSpace(l)
		}
	}
	if len(out) > 200 {
		out = out[:200]
	}
	return out
}

var c16Stop bool

// c16Range runs [lo,hi) in a child; on a crash it narrows to one string.
func c16Range(c *Ctx, maxLen int, lo, hi int64) {
	exe, _ := os.Executable()
	for lo < hi {
		cmd := exec.Command("bash", "-c", fmt.Sprintf("ulimit -v 4000000; exec %s -child c16:%d:%d:%d", exe, maxLen, lo, hi))
		out, runErr := cmd.CombinedOutput()
		lastP := lo
		done := false
		for _, l := range strings.Split(string(out), "\n") {
			switch {
			case strings.HasPrefix(l, "P "):
				lastP, _ = strconv.ParseInt(l[2:], 10, 64)
			case strings.HasPrefix(l, "V "):
				f := strings.SplitN(l, " ", 3)
				idx, _ := strconv.ParseInt(f[1], 10, 64)
				s := c16Item(idx, maxLen)
				c.Violation("panic-or-bad-result", fmt.Sprintf("ParseURI(%s): %s", quoteClip(s), f[2]), map[string]string{"s": s})
			case strings.HasPrefix(l, "D "):
				f := strings.Fields(l)
				acc, _ := strconv.ParseInt(f[2], 10, 64)
				c.Res.Outcomes["accepted"] += acc
				c.Res.Outcomes["rejected"] += (hi - lo) - acc
				done = true
			}
		}
		if runErr == nil && done {
			c.Eval(hi - lo)
			c.Res.Extra["sum_strings_parsed"] = c.extraNum("sum_strings_parsed") + float64(hi-lo)
			c.DistinctByConstruction += hi - lo
			if len(c.Res.Samples) < 3 {
				c.Sample(c16Item(lo+(hi-lo)/3, maxLen))
			}
			return
		}
		// the child died somewhere in [lastP, min(lastP+4096,hi)): find the string
		wlo, whi := lastP, lastP+4096
		if whi > hi {
			whi = hi
		}
		bad := int64(-1)
		for i := wlo; i < whi; i++ {
			// cheap first: run singles only after a bisect narrows it down
			_ = i
			break
		}
		l, h := wlo, whi
		for h-l > 1 {
			mid := (l + h) / 2
			if c16Crashes(exe, maxLen, l, mid) {
				h = mid
			} else {
				l = mid
			}
		}
		bad = l
		s := c16Item(bad, maxLen)
		before := len(c.Res.Violations)
		c16One(c, s)
		if len(c.Res.Violations) == before && c.violKeys["unbounded-recursion"]+c.violKeys["hang"]+c.violKeys["process-crash"]+c.violKeys["out-of-memory"] == 0 {
			// the string alone is harmless: the failure needs what the process parsed before it. The counterexample is
			// the batch (replayed as a whole), named by the string at which the child stopped.
			if c16Crashes(exe, maxLen, lo, hi) {
				c.Violation(c16CrashKey(string(out))+"/after-earlier-calls", fmt.Sprintf("ParseURI(%s) kills the process after it parsed items %d..%d of the enumeration (alone it does not): %s", quoteClip(s), lo, bad, c16CrashLine(string(out))),
					map[string]interface{}{"range": []int64{lo, hi}, "maxlen": maxLen})
			} else {
				c.Fail("child crashed in [%d,%d) but neither string %q alone nor the batch again does: %s", wlo, whi, s, c16CrashLine(string(out)))
			}
		}
		c.Eval(bad - lo)
		c.Res.Exhaustive = false
		// one process-killing string decides the check; every further one costs a dozen child runs
		c16Stop = true
		return
	}
}

func (c *Ctx) extraNum(k string) float64 {
	if v, ok := c.Res.Extra[k].(float64); ok {
		return v
	}
	return 0
}

func c16Crashes(exe string, maxLen int, lo, hi int64) bool {
	cmd := exec.Command("bash", "-c", fmt.Sprintf("ulimit -v 4000000; exec %s -child c16:%d:%d:%d", exe, maxLen, lo, hi))
	_, err := cmd.CombinedOutput()
	return err != nil
}
