package main

import (
	"bytes"
	"encoding/json"
	"errors"
	"fmt"
	"net"
	"sort"

	stun "github.com/pion/stun/v3"

	"verif/ref"
)

// C09: setters reject unrepresentable values and fail atomically.

type c09Case struct {
	Setter string `json:"setter"`
	N      int    `json:"n"`   // length / code
	Pre    int    `json:"pre"` // preceding content
	Build  []int  `json:"build,omitempty"`
}

var c09Codes = map[int]bool{300: true, 400: true, 401: true, 403: true, 420: true, 437: true, 438: true, 440: true, 441: true,
	442: true, 443: true, 446: true, 447: true, 486: true, 487: true, 500: true, 508: true}

func c09KnownSorted() []int {
	var l []int
	for k := range c09Codes {
		l = append(l, k)
	}
	sort.Ints(l)
	return l
}

func c09Pre(pre int) *stun.Message {
	tid := stun.NewTransactionIDSetter([12]byte{1, 2, 3, 4, 5, 6, 7, 8, 9, 10, 11, 12})
	switch pre {
	case 0:
		return stun.MustBuild(stun.BindingRequest, tid)
	case 1:
		return stun.MustBuild(stun.BindingRequest, tid, stun.NewSoftware("x"))
	case 2:
		return stun.MustBuild(stun.BindingRequest, tid, stun.NewUsername("u"), stun.NewShortTermIntegrity("pw"))
	case 3:
		return stun.MustBuild(stun.BindingRequest, tid, stun.NewUsername("u"), stun.Fingerprint)
	case 5: // FINGERPRINT that is not the last attribute
		return stun.MustBuild(stun.BindingRequest, tid, stun.NewUsername("u"), stun.Fingerprint, stun.NewSoftware("after"))
	case 6: // FINGERPRINT first, two attributes after it
		return stun.MustBuild(stun.BindingRequest, tid, stun.Fingerprint, stun.NewRealm("r"), stun.NewNonce("n"))
	case 9, 10, 11, 12, 13: // a FINGERPRINT-typed attribute whose value is not 4 bytes (added raw / decoded from a peer); 13: followed by a regular one
		m := stun.MustBuild(stun.BindingRequest, tid, stun.NewUsername("u"))
		m.Add(stun.AttrFingerprint, bytesOf([]int{0, 3, 5, 8, 3}[pre-9]))
		if pre == 13 {
			_ = stun.Fingerprint.AddTo(m)
		}
		return m
	case 14: // a finished authenticated message: MESSAGE-INTEGRITY, then FINGERPRINT
		return stun.MustBuild(stun.BindingRequest, tid, stun.NewUsername("u"), stun.NewShortTermIntegrity("pw"), stun.Fingerprint)
	case 7, 8: // struct fields assigned directly and not (yet) written to Raw; 7 carries a FINGERPRINT
		var m *stun.Message
		if pre == 7 {
			m = stun.MustBuild(stun.BindingRequest, tid, stun.NewUsername("u"), stun.Fingerprint)
		} else {
			m = stun.MustBuild(stun.BindingRequest, tid, stun.NewUsername("abc"), stun.NewRealm("de"))
		}
		m.TransactionID = [12]byte{0xEE, 0xEE, 0xEE, 0xEE, 0xEE, 0xEE, 0xEE, 0xEE, 0xEE, 0xEE, 0xEE, 0xEE}
		m.Type = stun.BindingError
		return m
	case 15: // attributes of RFC 8489 (and other registered ones the library has no type for) that a peer or the caller put there
		m := stun.MustBuild(stun.BindingRequest, tid, stun.NewUsername("u"))
		m.Add(stun.AttrType(0x001C), bytesOf(32))                    // MESSAGE-INTEGRITY-SHA256
		m.Add(stun.AttrType(0x001D), []byte{0, 1, 0, 0})             // PASSWORD-ALGORITHM
		m.Add(stun.AttrType(0x001E), bytesOf(32))                    // USERHASH
		m.Add(stun.AttrType(0x8002), []byte{0, 1, 0, 0, 0, 2, 0, 0}) // PASSWORD-ALGORITHMS
		m.Add(stun.AttrType(0x8003), []byte("example.org"))          // ALTERNATE-DOMAIN
		return m
	case 16, 17, 18, 19, 20, 21, 22:
		// a Message that held one thing and now, without Reset, holds another: what it held BEFORE has no say in what a
		// setter accepts now. 16-20: it held a FINGERPRINT and now holds a message without one (through Write, Decode,
		// CloneTo, dropping the attribute and Encode, UnmarshalBinary); 21, 22: the other way round (Write, CloneTo)
		withFP := func() *stun.Message {
			return stun.MustBuild(stun.BindingRequest, tid, stun.NewUsername("u"), stun.NewSoftware("held before"), stun.Fingerprint)
		}
		plain := func() *stun.Message { return stun.MustBuild(stun.BindingRequest, tid, stun.NewUsername("u")) }
		var m *stun.Message
		var err error
		switch pre {
		case 16:
			m = withFP()
			_, err = m.Write(plain().Raw)
		case 17:
			m = withFP()
			m.Raw = append(m.Raw[:0], plain().Raw...)
			err = m.Decode()
		case 18:
			m = withFP()
			err = plain().CloneTo(m)
		case 19:
			m = withFP()
			m.Attributes = m.Attributes[:len(m.Attributes)-1]
			m.Encode()
		case 20:
			m = withFP()
			err = m.UnmarshalBinary(plain().Raw)
		case 21:
			m = plain()
			_, err = m.Write(withFP().Raw)
		case 22:
			m = plain()
			err = withFP().CloneTo(m)
		}
		if err != nil {
			panic("c09Pre: " + err.Error())
		}
		return m
	case 100, 101, 102, 103: // a message that is full, or nearly: what still fits is the precondition's business, what a setter refuses anyway is not
		m := new(stun.Message)
		m.TransactionID = [12]byte{1, 2, 3, 4, 5, 6, 7, 8, 9, 10, 11, 12}
		m.WriteHeader()
		m.Add(stun.AttrData, make([]byte, []int{65532, 65528, 65000, 64768}[pre-100]-4))
		return m
	default:
		return stun.MustBuild(stun.BindingRequest, tid, stun.NewUsername("abc"), stun.NewRealm("de"), stun.NewNonce("fghij"))
	}
}

func bytesOf(n int) []byte {
	b := make([]byte, n)
	for i := range b {
		b[i] = byte('a' + i%26)
	}
	return b
}

// utf8Of returns n bytes of well-formed multi-byte UTF-8 (2-, 3- or 4-byte characters), padded with ASCII.
func utf8Of(n, width int) []byte {
	unit := map[int]string{2: "é", 3: "€", 4: "𝄞"}[width]
	var b []byte
	for len(b)+len(unit) <= n {
		b = append(b, unit...)
	}
	for len(b) < n {
		b = append(b, 'x')
	}
	return b
}

// c09Setter returns the setter, whether it must be accepted, and the check of
// the error class.
func c09Setter(name string, n, pre int) (s stun.Setter, accept bool, classOK func(error) bool, class string) {
	overflow := func(err error) bool { return stun.IsAttrSizeOverflow(err) }
	badIP := func(err error) bool { return errors.Is(err, stun.ErrBadIPLength) }
	ipOK := n == 4 || n == 16
	if len(name) > 3 && name[:3] == "ip:" { // ip:<pattern>:<setter>
		pat := name[3]
		name = name[5:]
		ip := make([]byte, n)
		switch pat {
		case 'z':
		case 'f':
			for i := range ip {
				ip[i] = 0xff
			}
		case 'm': // the IPv4-mapped prefix: bytes 0..9 zero, bytes 10..11 0xff
			for i := range ip {
				if i == 10 || i == 11 {
					ip[i] = 0xff
				} else if i >= 12 {
					ip[i] = byte(i)
				}
			}
		}
		switch name {
		case "XORMappedAddress":
			return &stun.XORMappedAddress{IP: net.IP(ip), Port: 7}, ipOK, badIP, "ErrBadIPLength"
		case "XORMappedAddress.AddToAs":
			return setterFunc(func(m *stun.Message) error {
				return stun.XORMappedAddress{IP: net.IP(ip), Port: 7}.AddToAs(m, stun.AttrXORRelayedAddress)
			}), ipOK, badIP, "ErrBadIPLength"
		case "MappedAddress":
			return &stun.MappedAddress{IP: net.IP(ip), Port: 7}, ipOK, badIP, "ErrBadIPLength"
		case "AlternateServer":
			return &stun.AlternateServer{IP: net.IP(ip), Port: 7}, ipOK, badIP, "ErrBadIPLength"
		case "ResponseOrigin":
			return &stun.ResponseOrigin{IP: net.IP(ip), Port: 7}, ipOK, badIP, "ErrBadIPLength"
		case "OtherAddress":
			return &stun.OtherAddress{IP: net.IP(ip), Port: 7}, ipOK, badIP, "ErrBadIPLength"
		}
	}
	if len(name) > 6 && name[:6] == "magic:" { // magic:<k>:<setter>: the value starts with a byte string that means something elsewhere in STUN
		prefix := c09Magic[int(name[6]-'0')]
		v := bytesOf(n)
		copy(v, prefix)
		switch name[8:] {
		case "Username":
			return stun.Username(v), n <= 513, overflow, "IsAttrSizeOverflow"
		case "Realm":
			return stun.Realm(v), n <= 763, overflow, "IsAttrSizeOverflow"
		case "Nonce":
			return stun.Nonce(v), n <= 763, overflow, "IsAttrSizeOverflow"
		case "Software":
			return stun.Software(v), n <= 763, overflow, "IsAttrSizeOverflow"
		case "ErrorCodeAttribute":
			return stun.ErrorCodeAttribute{Code: 401, Reason: v}, n <= 763, overflow, "IsAttrSizeOverflow"
		}
	}
	if len(name) > 5 && name[:5] == "utf8:" { // utf8:<width>:<setter>
		width := int(name[5] - '0')
		v := utf8Of(n, width)
		switch name[7:] {
		case "Username":
			return stun.Username(v), n <= 513, overflow, "IsAttrSizeOverflow"
		case "Realm":
			return stun.Realm(v), n <= 763, overflow, "IsAttrSizeOverflow"
		case "Nonce":
			return stun.Nonce(v), n <= 763, overflow, "IsAttrSizeOverflow"
		case "Software":
			return stun.Software(v), n <= 763, overflow, "IsAttrSizeOverflow"
		case "ErrorCodeAttribute":
			return stun.ErrorCodeAttribute{Code: 401, Reason: v}, n <= 763, overflow, "IsAttrSizeOverflow"
		}
	}
	switch name {
	case "Username":
		return stun.Username(bytesOf(n)), n <= 513, overflow, "IsAttrSizeOverflow"
	case "Realm":
		return stun.Realm(bytesOf(n)), n <= 763, overflow, "IsAttrSizeOverflow"
	case "Nonce":
		return stun.Nonce(bytesOf(n)), n <= 763, overflow, "IsAttrSizeOverflow"
	case "Software":
		return stun.Software(bytesOf(n)), n <= 763, overflow, "IsAttrSizeOverflow"
	case "ErrorCodeAttribute":
		return stun.ErrorCodeAttribute{Code: 401, Reason: bytesOf(n)}, n <= 763, overflow, "IsAttrSizeOverflow"
	case "ErrorCodeAttribute/any-code":
		// the attribute form takes any code and any reason within the limit, the empty one included: n = code
		return stun.ErrorCodeAttribute{Code: stun.ErrorCode(n), Reason: nil}, true, overflow, "IsAttrSizeOverflow"
	case "ErrorCodeAttribute/any-code/reason":
		return stun.ErrorCodeAttribute{Code: stun.ErrorCode(n), Reason: []byte("r")}, true, overflow, "IsAttrSizeOverflow"
	case "Fingerprint/large-body":
		// n = attribute bytes in front of it; only what the setter does when it REFUSES is judged (sizes that do not
		// fit the 16-bit length are outside the property's precondition, and the setter has no limit of its own today)
		return stun.Fingerprint, true, func(error) bool { return true }, "any"
	case "ErrorCode":
		return stun.ErrorCode(n), c09Codes[n], func(err error) bool { return errors.Is(err, stun.ErrNoDefaultReason) }, "ErrNoDefaultReason"
	case "XORMappedAddress":
		return &stun.XORMappedAddress{IP: net.IP(bytesOf(n)), Port: 7}, ipOK, badIP, "ErrBadIPLength"
	case "XORMappedAddress.AddToAs":
		return setterFunc(func(m *stun.Message) error {
			return stun.XORMappedAddress{IP: net.IP(bytesOf(n)), Port: 7}.AddToAs(m, stun.AttrXORPeerAddress)
		}), ipOK, badIP, "ErrBadIPLength"
	case "MappedAddress":
		return &stun.MappedAddress{IP: net.IP(bytesOf(n)), Port: 7}, ipOK, badIP, "ErrBadIPLength"
	case "AlternateServer":
		return &stun.AlternateServer{IP: net.IP(bytesOf(n)), Port: 7}, ipOK, badIP, "ErrBadIPLength"
	case "ResponseOrigin":
		return &stun.ResponseOrigin{IP: net.IP(bytesOf(n)), Port: 7}, ipOK, badIP, "ErrBadIPLength"
	case "OtherAddress":
		return &stun.OtherAddress{IP: net.IP(bytesOf(n)), Port: 7}, ipOK, badIP, "ErrBadIPLength"
	case "port:XORMappedAddress":
		return &stun.XORMappedAddress{IP: net.IPv4(192, 0, 2, 1).To4(), Port: n}, true, badIP, "ErrBadIPLength"
	case "port:XORMappedAddress.AddToAs":
		return setterFunc(func(m *stun.Message) error {
			return (&stun.XORMappedAddress{IP: net.ParseIP("2001:db8::9"), Port: n}).AddToAs(m, stun.AttrXORPeerAddress)
		}), true, badIP, "ErrBadIPLength"
	case "port:MappedAddress":
		return &stun.MappedAddress{IP: net.IPv4(192, 0, 2, 1).To4(), Port: n}, true, badIP, "ErrBadIPLength"
	case "port:AlternateServer":
		return &stun.AlternateServer{IP: net.ParseIP("2001:db8::9"), Port: n}, true, badIP, "ErrBadIPLength"
	case "port:ResponseOrigin":
		return &stun.ResponseOrigin{IP: net.IPv4(192, 0, 2, 1).To4(), Port: n}, true, badIP, "ErrBadIPLength"
	case "port:OtherAddress":
		return &stun.OtherAddress{IP: net.IPv4(192, 0, 2, 1).To4(), Port: n}, true, badIP, "ErrBadIPLength"
	case "MessageIntegrity":
		return stun.MessageIntegrity(bytesOf(n)), pre != 3 && pre != 5 && pre != 6 && pre != 7 && (pre < 9 || pre > 14) && pre != 21 && pre != 22, func(err error) bool { return errors.Is(err, stun.ErrFingerprintBeforeIntegrity) }, "ErrFingerprintBeforeIntegrity"
	}
	panic("c09: unknown setter " + name)
}

// c09Magic: the RFC 8489 nonce cookie with its feature characters, the magic cookie, the FINGERPRINT XOR constant, a
// quoted string, an all-zero and an all-0xFF start.
var c09Magic = [][]byte{[]byte("obMatJos2AAAA"), {0x21, 0x12, 0xA4, 0x42}, []byte("STUN"), []byte("\"quoted\""), {0, 0, 0, 0, 0, 0, 0, 0}, {0xFF, 0xFF, 0xFF, 0xFF, 0xFF, 0xFF, 0xFF, 0xFF}}

type setterFunc func(m *stun.Message) error

func (f setterFunc) AddTo(m *stun.Message) error { return f(m) }

func c09Check(k c09Case) (outcome, key, detail string) {
	if p := catch(func() { outcome, key, detail = c09Check1(k) }); p != "" {
		return "", "panic/" + k.Setter, fmt.Sprintf("%s on %+v", p, k)
	}
	return
}

func c09Check1(k c09Case) (string, string, string) {
	if k.Setter == "Build" {
		return c09Build(k)
	}
	s, accept, classOK, class := c09Setter(k.Setter, k.N, k.Pre)
	m := c09Pre(k.Pre)
	if k.Setter == "Fingerprint/large-body" {
		m = new(stun.Message)
		m.WriteHeader()
		m.Add(stun.AttrData, make([]byte, k.N-4))
	}
	snap := snapMsg(m)
	err := s.AddTo(m)
	if k.Setter == "Fingerprint/large-body" {
		if err == nil {
			return "accept", "", "" // (whether the result fits is the precondition's business)
		}
		accept = false
	}
	if accept {
		if err != nil {
			return "", "rejects-valid/" + k.Setter, fmt.Sprintf("%s(%d) after content %d rejected a value within the limits: %v", k.Setter, k.N, k.Pre, err)
		}
		if len(m.Attributes) != snap.aLen+1 {
			return "", "accept-no-attribute/" + k.Setter, fmt.Sprintf("%s(%d) returned nil but the message has %d attributes (had %d)", k.Setter, k.N, len(m.Attributes), snap.aLen)
		}
		if why := ref.WellFormedZeroPad(m.Raw); why != "" {
			return "", "malformed-after-accept/" + k.Setter, fmt.Sprintf("%s(%d): message is malformed afterwards (%s)", k.Setter, k.N, why)
		}
		return "accept", "", ""
	}
	if err == nil {
		return "", "accepts-invalid/" + k.Setter, fmt.Sprintf("%s(%d) after content %d accepted an unrepresentable value", k.Setter, k.N, k.Pre)
	}
	if !classOK(err) {
		return "", "error-class/" + k.Setter, fmt.Sprintf("%s(%d) failed with %T %v, want %s", k.Setter, k.N, err, err, class)
	}
	if !bytes.Equal(m.Raw, snap.raw) || m.Length != snap.length || len(m.Attributes) != snap.aLen || m.Type != snap.typ || m.TransactionID != snap.tid {
		return "", "not-atomic/" + k.Setter, fmt.Sprintf("%s(%d) returned %v but changed the message: len(Raw) %d->%d Length %d->%d attrs %d->%d", k.Setter, k.N, err,
			snap.rawLen, len(m.Raw), snap.length, m.Length, snap.aLen, len(m.Attributes))
	}
	for i, a := range m.Attributes {
		b := snap.attrs[i]
		if a.Type != b.Type || a.Length != b.Length || !bytes.Equal(a.Value, b.Value) {
			return "", "not-atomic/" + k.Setter, fmt.Sprintf("%s(%d) returned %v but attribute %d changed", k.Setter, k.N, err, i)
		}
	}
	return "reject", "", ""
}

var errC09Menu = errors.New("menu setter failure")

// c09Menu: 7 setters; two always fail, MessageIntegrity (6) fails when a FINGERPRINT was applied before it.
func c09Menu(i int) (stun.Setter, bool) {
	switch i {
	case 6:
		return stun.NewShortTermIntegrity("menu"), true
	case 0:
		return stun.NewUsername("user"), true
	case 1:
		return stun.Username(bytesOf(514)), false // overflow
	case 2:
		return stun.NewSoftware("sw"), true
	case 3:
		return setterFunc(func(m *stun.Message) error { return errC09Menu }), false
	case 4:
		return &stun.XORMappedAddress{IP: net.IPv4(1, 2, 3, 4), Port: 5}, true
	case 7: // the setters that write the header, listed wherever a caller lists them
		return stun.BindingSuccess, true
	case 8:
		return stun.NewTransactionIDSetter([12]byte{8, 8, 8}), true
	case 9:
		return &stun.Message{TransactionID: [12]byte{9, 9}}, true // a *Message as a setter copies its transaction id
	default:
		return stun.Fingerprint, true
	}
}

func c09Build(k c09Case) (string, string, string) {
	var setters, prefix []stun.Setter
	failAt := -1
	base := []stun.Setter{stun.BindingRequest, stun.NewTransactionIDSetter([12]byte{7})}
	setters = append(setters, base...)
	prefix = append(prefix, base...)
	fpSeen := false
	for pos, idx := range k.Build {
		s, ok := c09Menu(idx)
		if idx == 6 && fpSeen {
			ok = false // integrity after FINGERPRINT is refused
		}
		if idx == 5 {
			fpSeen = true
		}
		setters = append(setters, s)
		if failAt < 0 {
			if ok {
				prefix = append(prefix, s)
			} else {
				failAt = pos
			}
		}
	}
	m := c09Pre(k.Pre) // Build must reset whatever was there
	err := m.Build(setters...)
	want := new(stun.Message)
	if perr := want.Build(prefix...); perr != nil {
		return "", "harness", "prefix build failed: " + perr.Error()
	}
	if failAt < 0 {
		if err != nil {
			return "", "build-spurious-error", fmt.Sprintf("Build%v failed: %v", k.Build, err)
		}
	} else {
		_, _ = c09Menu(k.Build[failAt])
		wantOverflow := k.Build[failAt] == 1
		wantOrder := k.Build[failAt] == 6
		if err == nil {
			return "", "build-swallows-error", fmt.Sprintf("Build%v returned nil although setter %d fails", k.Build, failAt)
		}
		if wantOverflow && !stun.IsAttrSizeOverflow(err) || wantOrder && !errors.Is(err, stun.ErrFingerprintBeforeIntegrity) || !wantOverflow && !wantOrder && !errors.Is(err, errC09Menu) {
			return "", "build-wrong-error", fmt.Sprintf("Build%v returned %v, want the error of the first failing setter (position %d)", k.Build, err, failAt)
		}
	}
	if !bytes.Equal(m.Raw, want.Raw) {
		return "", "build-applied-wrong-prefix", fmt.Sprintf("Build%v (first failure at %d) left %x, want exactly the prefix %x", k.Build, failAt, clip(m.Raw), clip(want.Raw))
	}
	if failAt < 0 {
		return "build-ok", "", ""
	}
	return "build-fail", "", ""
}

func init() {
	registry["C09"] = propImpl{
		Run: func(c *Ctx) {
			var i int64
			do := func(k c09Case) {
				i++
				if !c.Mine(i) {
					return
				}
				c.Eval(1)
				c.DistinctByConstruction++
				out, key, d := c09Check(k)
				if key != "" {
					c.Violation(key, d, k)
					return
				}
				c.Outcome(k.Setter + ":" + out)
				if i%9973 == 1 {
					c.Sample(k)
				}
			}
			for pre := 0; pre < 23; pre++ {
				for _, ts := range []struct {
					name string
					max  int
				}{{"Username", 513}, {"Realm", 763}, {"Nonce", 763}, {"Software", 763}, {"ErrorCodeAttribute", 763}} {
					for n := 0; n <= ts.max+300; n++ {
						do(c09Case{Setter: ts.name, N: n, Pre: pre})
					}
				}
				// the limits are byte limits: multi-byte UTF-8 content on both sides of each limit
				if pre < 2 {
					for _, ts := range []struct {
						name string
						max  int
					}{{"Username", 513}, {"Realm", 763}, {"Nonce", 763}, {"Software", 763}, {"ErrorCodeAttribute", 763}} {
						for width := 2; width <= 4; width++ {
							for n := ts.max - 8; n <= ts.max+300; n++ {
								do(c09Case{Setter: fmt.Sprintf("utf8:%d:%s", width, ts.name), N: n, Pre: pre})
							}
						}
					}
				}
				if pre < 2 {
					for _, ts := range []struct {
						name string
						max  int
					}{{"Username", 513}, {"Realm", 763}, {"Nonce", 763}, {"Software", 763}, {"ErrorCodeAttribute", 763}} {
						for mk := range c09Magic {
							for n := ts.max - 8; n <= ts.max+64; n++ {
								do(c09Case{Setter: fmt.Sprintf("magic:%d:%s", mk, ts.name), N: n, Pre: pre})
							}
						}
					}
				}
				for _, name := range []string{"XORMappedAddress", "XORMappedAddress.AddToAs", "MappedAddress", "AlternateServer", "ResponseOrigin", "OtherAddress"} {
					maxIP := 20
					if c.Thorough() {
						maxIP = 300
					}
					for n := 0; n <= maxIP; n++ {
						do(c09Case{Setter: name, N: n, Pre: pre})
					}
				}
				if pre < 2 {
					for _, pat := range []string{"z", "f", "m"} {
						for _, name := range []string{"XORMappedAddress", "XORMappedAddress.AddToAs", "MappedAddress", "AlternateServer", "ResponseOrigin", "OtherAddress"} {
							for n := 0; n <= 24; n++ {
								do(c09Case{Setter: "ip:" + pat + ":" + name, N: n, Pre: pre})
							}
						}
					}
				}
				if pre < 2 {
					for code := 0; code <= 999; code++ {
						do(c09Case{Setter: "ErrorCodeAttribute/any-code", N: code, Pre: pre})
						do(c09Case{Setter: "ErrorCodeAttribute/any-code/reason", N: code, Pre: pre})
					}
				}
				if pre == 0 {
					for n := 65500; n <= 65535; n++ {
						if n%4 == 0 {
							do(c09Case{Setter: "Fingerprint/large-body", N: n, Pre: pre})
						}
					}
				}
				lo, hi := 0, 999
				if c.Thorough() {
					lo, hi = -70000, 140000
				}
				for code := lo; code <= hi; code++ {
					do(c09Case{Setter: "ErrorCode", N: code, Pre: pre})
				}
				// ErrorCode is an int: values outside 0..65535 whose low 8/16/32 bits are a code with a default reason
				for _, known := range c09KnownSorted() {
					for _, off := range []int{1 << 8, 1 << 16, 3 << 16, -(1 << 16), 1 << 32, -(1 << 32), 1 << 31} {
						do(c09Case{Setter: "ErrorCode", N: known + off, Pre: pre})
					}
					do(c09Case{Setter: "ErrorCode", N: -known, Pre: pre})
				}
				for _, n := range []int{0, 1, 20, 64, 65} {
					do(c09Case{Setter: "MessageIntegrity", N: n, Pre: pre})
				}
				// every port a transport has, the edges included, with a valid address: accepted
				if pre < 3 {
					for _, name := range []string{"port:XORMappedAddress", "port:XORMappedAddress.AddToAs", "port:MappedAddress", "port:AlternateServer", "port:ResponseOrigin", "port:OtherAddress"} {
						for _, port := range []int{0, 1, 255, 256, 32767, 32768, 65534, 65535} {
							do(c09Case{Setter: name, N: port, Pre: pre})
						}
					}
				}
				// Build with every list of <= 3 setters from the 10-element menu
				do(c09Case{Setter: "Build", Pre: pre, Build: []int{}})
				for a := 0; a < 10; a++ {
					do(c09Case{Setter: "Build", Pre: pre, Build: []int{a}})
					for b := 0; b < 10; b++ {
						do(c09Case{Setter: "Build", Pre: pre, Build: []int{a, b}})
						for d := 0; d < 10; d++ {
							do(c09Case{Setter: "Build", Pre: pre, Build: []int{a, b, d}})
							if c.Thorough() {
								for e := 0; e < 10; e++ {
									do(c09Case{Setter: "Build", Pre: pre, Build: []int{a, b, d, e}})
									for f := 0; f < 10; f++ {
										do(c09Case{Setter: "Build", Pre: pre, Build: []int{a, b, d, e, f}})
									}
								}
							}
						}
					}
				}
			}
			// on a message that is full or nearly full: every value a setter refuses on an empty message is refused here too,
			// with the same error, and nothing is written
			for pre := 100; pre <= 103; pre++ {
				for _, ts := range []struct {
					name string
					max  int
				}{{"Username", 513}, {"Realm", 763}, {"Nonce", 763}, {"Software", 763}, {"ErrorCodeAttribute", 763}} {
					for _, n := range []int{ts.max + 1, ts.max + 2, ts.max + 3, ts.max + 4, ts.max + 100, ts.max + 300} {
						do(c09Case{Setter: ts.name, N: n, Pre: pre})
					}
				}
				for _, name := range []string{"XORMappedAddress", "MappedAddress", "AlternateServer"} {
					for _, n := range []int{0, 3, 5, 15, 17} {
						do(c09Case{Setter: name, N: n, Pre: pre})
					}
				}
			}
		},
		Replay: func(c *Ctx, p json.RawMessage) {
			var k c09Case
			if err := json.Unmarshal(p, &k); err != nil {
				c.Fail("%v", err)
			}
			if _, key, d := c09Check(k); key != "" {
				c.Violation(key, d, k)
			}
		},
	}
}
