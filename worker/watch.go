package main

import (
	"fmt"
	"os"
	"sync/atomic"
	"time"
)

// Hang watchdog: the harness publishes the case it is about to run; if the
// same case is still current after two watchdog periods the worker reports it
// as a violation of the "never loops" clause and exits. Normal cases take
// microseconds, the period is 10 s.

type watchCase struct {
	Key    string
	Detail string
	Replay interface{}
}

var (
	watchCur  atomic.Pointer[watchCase]
	watchTick atomic.Int64
)

// Watch publishes the current case (nil clears it).
func (c *Ctx) Watch(w *watchCase) {
	watchCur.Store(w)
	watchTick.Add(1)
}

func (c *Ctx) startWatchdog(period time.Duration) {
	go func() {
		var last int64 = -1
		same := 0
		for {
			time.Sleep(period)
			t := watchTick.Load()
			w := watchCur.Load()
			if w == nil || t != last {
				last = t
				same = 0
				continue
			}
			same++
			if same >= 2 {
				c.Res.Violations = append(c.Res.Violations[:0:0], c.Res.Violations...)
				c.violKeys = map[string]int{}
				c.Violation(w.Key, fmt.Sprintf("%s (no progress for %v)", w.Detail, period*time.Duration(same+1)), w.Replay)
				c.Res.Exhaustive = false
				writeResult(c)
				os.Exit(0)
			}
		}
	}()
}
