//go:build race

package main

import (
	"encoding/hex"
	"fmt"
	"net"
	"os"
	"os/exec"
	"strconv"
	"strings"
	"sync"

	stun "github.com/pion/stun/v3"
)

// The sequential API from several goroutines (free-running side pass, -race build only).
//
// C01-C09, C17 and C19 are stated per call, on objects the caller owns. Real programs make those calls from many
// goroutines at once, each on its own Message / destination / URI. State the library shares behind the API
// (pools, scratch buffers, caches, lazily built tables) is invisible to a single-threaded enumeration, so a
// child process computes a fixed list of API items first on one goroutine and then on 8 goroutines concurrently,
// every goroutine on objects of its own, under the race detector: every concurrent result must equal the
// sequential one, the detector must stay silent and the process must survive (a runtime throw such as
// "concurrent map writes" cannot be recovered, hence the child process). This pass samples schedules; it is
// reported as sum_race_pass_iterations and no exhaustive claim rests on it.

const apiItems = 48

// apiItem computes item k on fresh objects and renders everything observable as a string.
// k = round*apiItems + item: the round only enters the transaction id and the URI texts, so that every round brings
// inputs no cache has seen.
func apiItem(full int) string {
	k := full % apiItems
	tid := [12]byte{byte(k), 2, 3, 4, 5, 6, 7, 8, byte(full >> 16), byte(full >> 8), byte(full), byte(k * 7)}
	pat := func(n int) []byte { return patBytes(n, k) }
	var sb strings.Builder
	m := new(stun.Message)
	switch k % 8 {
	case 0: // build + decode + lookups
		err := m.Build(stun.NewType(stun.Method(k), stun.ClassSuccessResponse), stun.NewTransactionIDSetter(tid),
			stun.Username(pat(k%30)), stun.Realm(pat(20+k)), stun.Software(pat(k)), stun.RawAttribute{Type: stun.AttrType(0x7F00 + k), Value: pat(k % 9)})
		d := new(stun.Message)
		_, werr := d.Write(m.Raw)
		fmt.Fprint(&sb, err, werr, hex.EncodeToString(m.Raw), d.Type, d.Length, len(d.Attributes))
		for _, a := range d.Attributes {
			fmt.Fprint(&sb, a.Type, a.Length, hex.EncodeToString(a.Value))
		}
		v, gerr := d.Get(stun.AttrRealm)
		fmt.Fprint(&sb, hex.EncodeToString(v), gerr, d.Contains(stun.AttrNonce), d.Equal(m))
	case 1: // integrity + fingerprint
		key := stun.MessageIntegrity(pat(1 + k*5))
		err := m.Build(stun.BindingRequest, stun.NewTransactionIDSetter(tid), stun.Username(pat(5)), key, stun.Fingerprint)
		fmt.Fprint(&sb, err, hex.EncodeToString(m.Raw), key.Check(m), stun.MessageIntegrity("wrong").Check(m) != nil, stun.Fingerprint.Check(m))
		lt := stun.NewLongTermIntegrity("user"+strconv.Itoa(k), "realm", "pass")
		fmt.Fprint(&sb, hex.EncodeToString(lt))
	case 2: // address attributes
		ip := net.IP(pat(16))
		if k%16 < 8 {
			ip = net.IP(pat(4))
		}
		err := m.Build(stun.BindingSuccess, stun.NewTransactionIDSetter(tid), &stun.XORMappedAddress{IP: ip, Port: 1000 + k},
			&stun.MappedAddress{IP: ip, Port: 2000 + k}, &stun.AlternateServer{IP: ip, Port: 3000 + k})
		var x stun.XORMappedAddress
		var a stun.MappedAddress
		var s stun.AlternateServer
		fmt.Fprint(&sb, err, hex.EncodeToString(m.Raw), x.GetFrom(m), x, a.GetFrom(m), a, s.GetFrom(m), s)
	case 3: // ERROR-CODE, UNKNOWN-ATTRIBUTES
		ua := stun.UnknownAttributes{stun.AttrType(k), stun.AttrType(0x8000 + k), stun.AttrType(0xFF00 + k)}
		err := m.Build(stun.BindingError, stun.NewTransactionIDSetter(tid), stun.ErrorCodeAttribute{Code: stun.ErrorCode(300 + k), Reason: pat(k)}, ua)
		var e stun.ErrorCodeAttribute
		var u stun.UnknownAttributes
		fmt.Fprint(&sb, err, hex.EncodeToString(m.Raw), e.GetFrom(m), e.Code, hex.EncodeToString(e.Reason), u.GetFrom(m), u, stun.CodeStaleNonce.AddTo(m), stun.ErrorCode(k).AddTo(m))
	case 4: // URIs
		for _, s := range []string{fmt.Sprintf("stun:host%d.example.org:%d", full, 1000+k), fmt.Sprintf("turns:[2001:db8::%x]?transport=tcp", full), fmt.Sprintf("turn:H%d", full), fmt.Sprintf("stun:h%d:99999", full)} {
			u, err := stun.ParseURI(s)
			if err != nil {
				fmt.Fprint(&sb, "err;")
				continue
			}
			u2, err2 := stun.ParseURI(u.String())
			fmt.Fprint(&sb, *u, u.String(), err2, u2 != nil && *u2 == *u)
			u.Host, u.Port = "edited.invalid", 1 // what a caller does to its own value
		}
	case 5: // the type codec, setters that fail
		for i := 0; i < 64; i++ {
			t := stun.NewType(stun.Method(k*64+i), stun.MessageClass(i%4))
			var back stun.MessageType
			back.ReadValue(t.Value())
			fmt.Fprint(&sb, t.Value(), back == t)
		}
		m.WriteHeader()
		fmt.Fprint(&sb, stun.Username(pat(600)).AddTo(m) != nil, (&stun.XORMappedAddress{IP: net.IP(pat(5))}).AddTo(m) != nil, hex.EncodeToString(m.Raw))
	case 6: // reuse of one Message and one destination for several messages
		var t stun.TextAttribute
		for i := 0; i < 4; i++ {
			_ = m.Build(stun.BindingRequest, stun.NewTransactionIDSetter(tid), stun.Nonce(pat(10+i*50)), stun.Software(pat(3+i)))
			d := new(stun.Message)
			_ = stun.Decode(m.Raw, d)
			t = t[:0]
			fmt.Fprint(&sb, t.GetFromAs(d, stun.AttrNonce), hex.EncodeToString(t), hex.EncodeToString(d.Raw))
		}
	case 7: // undecodable input, ForEach, CloneTo
		_ = m.Build(stun.BindingRequest, stun.NewTransactionIDSetter(tid), stun.Username("a"), stun.Username(pat(k)), stun.Realm("r"))
		bad := append([]byte(nil), m.Raw...)
		bad[3] ^= 0x04
		d := new(stun.Message)
		_, e1 := d.Write(bad)
		_, e2 := d.Write(bad[:10])
		n := 0
		e3 := m.ForEach(stun.AttrUsername, func(mm *stun.Message) error {
			n++
			v, _ := mm.Get(stun.AttrUsername)
			sb.WriteString(hex.EncodeToString(v))
			return nil
		})
		c := new(stun.Message)
		fmt.Fprint(&sb, e1 != nil, e2 != nil, e3, n, m.CloneTo(c), c.Equal(m), len(m.Attributes))
	}
	return sb.String()
}

func init() {
	childFuncs["apiconc"] = func(c *Ctx, arg string) {
		rounds, _ := strconv.Atoi(arg)
		bad := ""
		for r := 0; r < rounds && bad == ""; r++ {
			// the concurrent phase comes first, on inputs this process has not seen; the single-goroutine results
			// it is compared with are computed afterwards
			var got [8][apiItems]string
			var wg sync.WaitGroup
			for g := 0; g < 8; g++ {
				g := g
				wg.Add(1)
				go func() {
					defer wg.Done()
					for i := 0; i < apiItems; i++ {
						k := (i*5 + g*7 + r) % apiItems
						if p := catch(func() { got[g][k] = apiItem(r*apiItems + k) }); p != "" {
							got[g][k] = "panic: " + p
						}
					}
				}()
			}
			wg.Wait()
			for k := 0; k < apiItems && bad == ""; k++ {
				want := apiItem(r*apiItems + k)
				for g := 0; g < 8; g++ {
					if got[g][k] != want {
						bad = fmt.Sprintf("item %d (kind %d) on goroutine %d of 8: %q, afterwards alone on one goroutine: %q", k, k%8, g, clipS(got[g][k]), clipS(want))
						break
					}
				}
			}
		}
		if bad != "" {
			fmt.Println("V " + bad)
		}
		fmt.Println("D", rounds)
	}
	run := func(c *Ctx) {
		rounds := 30
		if c.Thorough() {
			rounds = 300
		}
		exe, _ := os.Executable()
		// what the library builds lazily is built once per process, in its first microseconds: five short-lived children
		// first (each one's very first use of everything is concurrent), then the long one
		var out []byte
		var err error
		for pre := 0; pre < 5; pre++ {
			o, e := exec.Command(exe, "-child", "apiconc:2").CombinedOutput()
			out = append(out, o...)
			if e != nil {
				err = e
			}
		}
		o, e := exec.Command(exe, "-child", "apiconc:"+strconv.Itoa(rounds)).CombinedOutput()
		out = append(out, o...)
		if e != nil {
			err = e
		}
		c.Eval(int64(rounds+10) * 8 * apiItems)
		if err != nil && !strings.Contains(string(out), "DATA RACE") {
			c.Res.Violations = append(c.Res.Violations, raceViolation(c16CrashKey(string(out))+"/concurrent-callers", "8 goroutines using the sequential API on objects of their own kill the process: "+c16CrashLine(string(out))))
		}
		for _, l := range strings.Split(string(out), "\n") {
			if strings.HasPrefix(l, "V ") {
				c.Res.Violations = append(c.Res.Violations, raceViolation("concurrent-callers/result-differs", l[2:]))
				break
			}
		}
		racePassFinish(c, int64(rounds), "8 goroutines x 48 API items per round (build, decode, lookups, integrity, fingerprint, typed attributes, URIs, type codec, reuse) on objects of their own, in a child process under the race detector; results compared with the single-goroutine results")
	}
	for _, id := range []string{"C01", "C02", "C03", "C04", "C05", "C06", "C07", "C08", "C09", "C17", "C19"} {
		registry[id] = propImpl{Run: run, Replay: racePassReplay(run)}
	}
}
