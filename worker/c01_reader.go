package main

import (
	"errors"
	"fmt"
	"io"
	"os"

	stun "github.com/pion/stun/v3"
)

// C01, the reader as environment: ReadFrom gets its bytes from an io.Reader, and what the reader answers (data, nothing,
// an error of one kind or another, data together with an error) is an input as much as the bytes are. Every script
// over the answer alphabet up to a bounded length is run, the last answer repeating for ever (a socket whose deadline
// has passed keeps saying so); ReadFrom has to return after a bounded number of Reads, with an error when the reader
// never delivered a decodable datagram, and without a panic.

type c01TempErr struct{}

func (c01TempErr) Error() string   { return "resource temporarily unavailable" }
func (c01TempErr) Temporary() bool { return true }
func (c01TempErr) Timeout() bool   { return true }

var c01ReaderAlphabet = "DZEXTWPO" // data | (0,nil) | EOF | plain error | temporary error | wrapped deadline | data+EOF | data+temporary

const c01ReaderHorizon = 64

type c01Runaway struct{}

type scriptReader struct {
	script string
	d      []byte
	reads  int
}

func (r *scriptReader) Read(p []byte) (int, error) {
	i := r.reads
	r.reads++
	if r.reads > c01ReaderHorizon {
		panic(c01Runaway{})
	}
	if i >= len(r.script) {
		i = len(r.script) - 1
	}
	switch r.script[i] {
	case 'D':
		return copy(p, r.d), nil
	case 'Z':
		return 0, nil
	case 'E':
		return 0, io.EOF
	case 'X':
		return 0, errors.New("connection reset by peer")
	case 'T':
		return 0, c01TempErr{}
	case 'W':
		return 0, fmt.Errorf("read udp 127.0.0.1:1: %w", os.ErrDeadlineExceeded)
	case 'P':
		return copy(p, r.d), io.EOF
	default:
		return copy(p, r.d), c01TempErr{}
	}
}

type c01ReaderReplay struct {
	Script string `json:"reader_script"`
	Hex    string `json:"hex"`
	Used   bool   `json:"used"`
}

func c01ReaderCase(script string, data []byte, used bool) (key, detail string) {
	m := &stun.Message{Raw: make([]byte, 0, 1024)}
	if used {
		_, _ = m.ReadFrom(&udpReader{d: data})
	}
	r := &scriptReader{script: script, d: data}
	var n int64
	var err error
	func() {
		defer func() {
			if p := recover(); p != nil {
				if _, ok := p.(c01Runaway); ok {
					key, detail = "hang", fmt.Sprintf("ReadFrom is still calling Read after %d reads of a reader that answers %q (last answer repeating)", c01ReaderHorizon, script)
				} else {
					key, detail = "panic/ReadFrom", fmt.Sprintf("reader script %q: %v", script, p)
				}
			}
		}()
		n, err = m.ReadFrom(r)
	}()
	if key != "" {
		return
	}
	delivered := false
	for i := 0; i < r.reads && i < len(script); i++ {
		if c := script[i]; c == 'D' || c == 'P' || c == 'O' {
			delivered = true
		}
	}
	if r.reads > len(script)+1 {
		// more reads than the script has distinct answers: it went round on the repeating answer
		return "readfrom-retries", fmt.Sprintf("ReadFrom called Read %d times on a reader that answers %q", r.reads, script)
	}
	if !delivered && err == nil {
		return "readfrom-silent", fmt.Sprintf("the reader answered %q (no byte delivered) and ReadFrom returned n=%d, nil", script, n)
	}
	if n < 0 || n > int64(len(data)) {
		return "readfrom-count", fmt.Sprintf("ReadFrom returned n=%d, datagram has %d bytes (script %q)", n, len(data), script)
	}
	return "", ""
}

func c01ReaderSweep(c *Ctx) {
	good := stun.MustBuild(stun.TransactionID, stun.BindingRequest, stun.NewSoftware("reader")).Raw
	bad := append([]byte{}, good...)
	bad[len(bad)-10] = 0xff // attribute length overruns
	depth := 3
	if c.Thorough() {
		depth = 5
	}
	var rec func(prefix string)
	n := 0
	rec = func(prefix string) {
		if len(prefix) > 0 {
			for di, d := range [][]byte{good, bad, good[:20], good[:7]} {
				for _, used := range []bool{false, true} {
					c.Eval(1)
					n++
					key, detail := c01ReaderCase(prefix, d, used)
					c.Outcome(fmt.Sprintf("reader:%c:data%d", prefix[len(prefix)-1], di))
					if key != "" {
						c.Violation(key, detail, c01Replay{Hex: fmt.Sprintf("%x", d), Reader: prefix, V: c01Variant{Entry: 5, Used: used}})
						return
					}
				}
			}
		}
		if len(prefix) == depth {
			return
		}
		for i := 0; i < len(c01ReaderAlphabet); i++ {
			rec(prefix + string(c01ReaderAlphabet[i]))
		}
	}
	rec("")
	c.Extra("reader_scripts_depth", float64(depth))
	c.Extra("reader_answer_alphabet", c01ReaderAlphabet)
	c.Extra("reader_cases", float64(n))
}
