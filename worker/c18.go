//go:build vsched

package main

import (
	"bytes"
	chmac "crypto/hmac"
	"crypto/sha1" //nolint:gosec
	"crypto/sha256"
	"encoding/json"
	"fmt"
	"hash"
	"hash/crc32"
	"io"

	"github.com/pion/stun/v3/zzverif/hmacx"
	"github.com/pion/stun/v3/zzverif/sched"

	"verif/mc/explore"
	"verif/ref"
)

// C18: pooled HMAC equals standard HMAC for every key, message and reuse history.

// Keys 0..5: one per length. Keys 6..9 are twins that a recycled object could confuse with a base key:
// 6: 20 bytes, different content, same CRC-32 as key 2; 7: key 2 reversed (same length, byte sum and xor);
// 8: key 4 (65 B) with the last byte changed (same first block); 9: key 3 (64 B) with the first byte changed.
// Keys 10..13: 763 / 764 / 1024 / 4096 bytes (grouped with key 5 for the pairing rule below).
var c18KeyLens = []int{0, 1, 20, 64, 65, 300, 20, 20, 65, 64, 763, 764, 1024, 4096}

const c18BaseKeys = 6

var c18TwinOf = map[int]int{6: 2, 7: 2, 8: 4, 9: 3, 10: 5, 11: 5, 12: 5, 13: 5}

// Chunks 0..3 are the script alphabet; 4..6 exist for the 64 KiB histories.
var c18ChunkLens = []int{0, 1, 63, 65, 32768, 65535, 65536}

const c18ScriptChunks = 4

// Pattern keys (index 100 + 8*length index + pattern): the content of a key is as free as its length. Zero bytes in
// front, at the end, everywhere; bytes equal to the pad constants; a long key whose tail of zeros starts inside the block.
var c18PatLens = []int{1, 20, 63, 64, 65, 66, 100, 128, 129, 300}

const c18Patterns = 8

func c18PatKey(i int) []byte {
	n, pat := c18PatLens[(i-100)/c18Patterns], (i-100)%c18Patterns
	k := make([]byte, n)
	for j := range k {
		k[j] = byte(j*11 + n + 3)
		if k[j] == 0 {
			k[j] = 1
		}
	}
	switch pat {
	case 0:
		for j := range k {
			k[j] = 0
		}
	case 1:
		for j := range k {
			k[j] = 0xFF
		}
	case 2:
		k[n-1] = 0
	case 3: // zeros from byte 60 on (or the last byte of a shorter key)
		for j := 60; j < n; j++ {
			k[j] = 0
		}
		k[n-1] = 0
	case 4:
		k[0] = 0
	case 5:
		for j := 0; j < n/2; j++ {
			k[j] = 0
		}
	case 6:
		for j := range k {
			k[j] = 0x36
		}
	case 7:
		for j := range k {
			k[j] = 0x5C
		}
	}
	return k
}

func c18KeyLen(i int) int {
	if i >= 100 {
		return c18PatLens[(i-100)/c18Patterns]
	}
	return c18KeyLens[i]
}

func c18Key(i int) []byte {
	if i >= 100 {
		return c18PatKey(i)
	}
	if b, ok := c18TwinOf[i]; ok && i < 10 {
		k := c18Key(b)
		switch i {
		case 6:
			want := crc32.ChecksumIEEE(k)
			for j := 0; j < 16; j++ {
				k[j] ^= 0x5A
			}
			forceCRC32(k, want)
			if crc32.ChecksumIEEE(k) != want || bytes.Equal(k, c18Key(b)) {
				panic("c18: CRC twin construction failed")
			}
		case 7:
			for l, r := 0, len(k)-1; l < r; l, r = l+1, r-1 {
				k[l], k[r] = k[r], k[l]
			}
		case 8:
			k[len(k)-1] ^= 0x80
		case 9:
			k[0] ^= 0x01
		}
		return k
	}
	k := make([]byte, c18KeyLens[i])
	for j := range k {
		k[j] = byte(j*7 + i*13 + 1)
	}
	return k
}

// forceCRC32 rewrites the last 4 bytes of b so that crc32.ChecksumIEEE(b) == want.
func forceCRC32(b []byte, want uint32) {
	tbl := crc32.IEEETable
	n := len(b) - 4
	reg := ^crc32.ChecksumIEEE(b[:n]) // register after the prefix
	f := ^want
	var idx [4]int
	r := f
	for i := 3; i >= 0; i-- {
		for t := 0; t < 256; t++ {
			if tbl[t]>>24 == r>>24 {
				idx[i] = t
				r = (r ^ tbl[t]) << 8
				break
			}
		}
	}
	for i := 0; i < 4; i++ {
		b[n+i] = byte(reg) ^ byte(idx[i])
		reg = reg>>8 ^ tbl[idx[i]]
	}
}

func c18Chunk(i int) []byte {
	c := make([]byte, c18ChunkLens[i])
	for j := range c {
		c[j] = byte(j*3 + i*29 + 5)
	}
	return c
}

// hop is one history operation.
type hop struct {
	Op   string `json:"op"` // acquire write sum reset put
	Slot int    `json:"slot"`
	Arg  int    `json:"arg,omitempty"` // key index / chunk index
}

func (h hop) String() string {
	switch h.Op {
	case "acquire":
		return fmt.Sprintf("acquire(s%d,key#%d:%dB)", h.Slot, h.Arg, c18KeyLen(h.Arg))
	case "write":
		return fmt.Sprintf("write(s%d,%dB)", h.Slot, c18ChunkLens[h.Arg])
	}
	return fmt.Sprintf("%s(s%d)", h.Op, h.Slot)
}

type c18Case struct {
	SHA256 bool  `json:"sha256"`
	Ops    []hop `json:"ops"`
	Prefix []int `json:"prefix"`
	// concurrent scenario instead of a history
	Threads int `json:"threads,omitempty"`
	// how "write" hands the bytes over: 0 Write, 1 io.Copy from a reader that returns its last bytes together with
	// io.EOF, 2 io.Copy from a reader that returns them in two halves and then (0, io.EOF). A hash.Hash is an io.Writer
	// and callers stream into it; whatever fast path io.Copy finds on the object must hash the same bytes.
	Feed int `json:"feed,omitempty"`
}

type c18Feeder struct {
	d    []byte
	mode int
	step int
}

func (f *c18Feeder) Read(p []byte) (int, error) {
	f.step++
	if f.mode == 1 {
		if f.step > 1 {
			return 0, io.EOF
		}
		return copy(p, f.d), io.EOF
	}
	half := len(f.d) / 2
	switch f.step {
	case 1:
		return copy(p, f.d[:half]), nil
	case 2:
		return copy(p, f.d[half:]), nil
	}
	return 0, io.EOF
}

type liveHMAC struct {
	h       hash.Hash
	key     []byte
	written []byte
}

// c18Exec runs the history inside a scheduler session (single thread; the
// pool's Get is an environment choice over pooled objects and a miss).
func c18Exec(k c18Case) (*sched.Result, []explore.Finding, string) {
	var finds []explore.Finding
	sums := 0
	res := sched.Run(sched.Config{Prefix: k.Prefix, PoolFanout: true}, func() {
		newHash := sha1.New
		size, bs := sha1.Size, sha1.BlockSize
		if k.SHA256 {
			newHash, size, bs = sha256.New, sha256.Size, sha256.BlockSize
		}
		var slots [2]*liveHMAC
		keyBuf := make([]byte, 4096) // the caller keeps its keys in one buffer and rewrites it in place
		type kept struct {
			got, want []byte
			step      int
		}
		var keptSums []kept
		for i, op := range k.Ops {
			s := slots[op.Slot]
			switch op.Op {
			case "acquire":
				kc := c18Key(op.Arg)
				if i%2 == 1 {
					for j := range kc {
						kc[j] ^= 0x5a // a different key of the same length
					}
				}
				key := keyBuf[:len(kc)]
				copy(key, kc)
				var h hash.Hash
				if k.SHA256 {
					h = hmacx.AcquireSHA256(key)
				} else {
					h = hmacx.AcquireSHA1(key)
				}
				slots[op.Slot] = &liveHMAC{h: h, key: append([]byte(nil), kc...)}
				if h.Size() != size || h.BlockSize() != bs {
					finds = append(finds, explore.Finding{Key: "size", Detail: fmt.Sprintf("Size/BlockSize = %d/%d", h.Size(), h.BlockSize())})
				}
				if other := slots[1-op.Slot]; other != nil && other.h == h {
					finds = append(finds, explore.Finding{Key: "pool-aliasing", Detail: fmt.Sprintf("step %d: acquire returned an object that is still in use", i)})
				}
			case "write":
				c := c18Chunk(op.Arg)
				if k.Feed == 0 {
					s.h.Write(c)
				} else if n, err := io.Copy(s.h, &c18Feeder{d: c, mode: k.Feed}); err != nil || n != int64(len(c)) {
					finds = append(finds, explore.Finding{Key: "copy-count", Detail: fmt.Sprintf("step %d %v: io.Copy into the HMAC returned (%d, %v) for %d bytes", i, op, n, err, len(c))})
				}
				s.written = append(s.written, c...)
			case "sum":
				prefix := []byte{0xAA, 0xBB}
				got := s.h.Sum(prefix)
				want := ref.HMAC(newHash, s.key, s.written)
				std := chmac.New(newHash, s.key)
				std.Write(s.written)
				if !bytes.Equal(want, std.Sum(nil)) {
					panic("reference HMAC disagrees with crypto/hmac")
				}
				sums++
				if !bytes.Equal(got[:2], prefix) || !bytes.Equal(got[2:], want) {
					finds = append(finds, explore.Finding{Key: "wrong-digest", Detail: fmt.Sprintf("step %d %v: Sum = %x, RFC 2104 HMAC(key %dB, %dB written) = %x", i, op, got[2:], len(s.key), len(s.written), want)})
				}
				// the caller reuses the buffer the first Sum returned (truncates the tag, clears it): a second Sum with
				// nothing written in between is the same digest again
				for j := range got {
					got[j] = 0xEE
				}
				again := s.h.Sum(nil)
				if !bytes.Equal(again, want) {
					finds = append(finds, explore.Finding{Key: "wrong-digest", Detail: fmt.Sprintf("step %d %v: a second Sum, after the caller overwrote the slice the first one returned, = %x, want %x", i, op, again, want)})
				}
				keptSums = append(keptSums, kept{got: again, want: want, step: i})
			case "reset":
				s.h.Reset()
				s.written = s.written[:0]
			case "put":
				if k.SHA256 {
					hmacx.PutSHA256(s.h)
				} else {
					hmacx.PutSHA1(s.h)
				}
				slots[op.Slot] = nil
			}
		}
		// digests handed out earlier must not change when the objects are used further
		for _, ks := range keptSums {
			if !bytes.Equal(ks.got, ks.want) {
				finds = append(finds, explore.Finding{Key: "digest-changed-later", Detail: fmt.Sprintf("the slice returned by Sum(nil) at step %d no longer holds that digest at the end of the history (%x, was %x)", ks.step, ks.got, ks.want)})
				break
			}
		}
	})
	if res.Status != sched.StatusDone {
		finds = append(finds, explore.Finding{Key: "status-" + res.Status, Detail: res.PanicVal + fmt.Sprint(res.Blocked)})
	}
	return res, finds, fmt.Sprintf("sums=%d", sums)
}

// c18Concurrent: n threads, each acquire/write/write/sum/put with a scheduling
// point between API calls.
func c18Concurrent(k c18Case) (*sched.Result, []explore.Finding, string) {
	var finds []explore.Finding
	order := ""
	res := sched.Run(sched.Config{Prefix: k.Prefix, PoolFanout: true}, func() {
		// every execution begins with one instance having been used and returned: whatever the library keeps in front of
		// or behind its pools is in the same state at the start of each execution, in a long-running worker as in the
		// fresh process of a replay
		{
			var p hash.Hash
			if k.SHA256 {
				p = hmacx.AcquireSHA256(c18Key(1))
			} else {
				p = hmacx.AcquireSHA1(c18Key(1))
			}
			p.Write(c18Chunk(1))
			_ = p.Sum(nil)
			if k.SHA256 {
				hmacx.PutSHA256(p)
			} else {
				hmacx.PutSHA1(p)
			}
		}
		for t := 0; t < k.Threads; t++ {
			t := t
			sched.Spawn(fmt.Sprintf("user%d", t), func() {
				key := c18Key([]int{5, 2, 4}[t%3])
				newHash := sha1.New
				if k.SHA256 {
					newHash = sha256.New
				}
				var h hash.Hash
				if k.SHA256 {
					h = hmacx.AcquireSHA256(key)
				} else {
					h = hmacx.AcquireSHA1(key)
				}
				var written []byte
				for w := 0; w < 2; w++ {
					sched.Point("api", nil)
					c := c18Chunk((t + w + 1) % 4)
					h.Write(c)
					written = append(written, c...)
				}
				sched.Point("api", nil)
				got := h.Sum(nil)
				if want := ref.HMAC(newHash, key, written); !bytes.Equal(got, want) {
					finds = append(finds, explore.Finding{Key: "wrong-digest-concurrent", Detail: fmt.Sprintf("thread %d: Sum = %x want %x", t, got, want)})
				}
				sched.Point("api", nil)
				// second round on the same object: Reset, write, Sum
				h.Reset()
				c := c18Chunk(t % 4)
				h.Write(c)
				sched.Point("api", nil)
				got = h.Sum(nil)
				if want := ref.HMAC(newHash, key, c); !bytes.Equal(got, want) {
					finds = append(finds, explore.Finding{Key: "wrong-digest-concurrent", Detail: fmt.Sprintf("thread %d after Reset: Sum = %x want %x", t, got, want)})
				}
				order += fmt.Sprint(t)
				if k.SHA256 {
					hmacx.PutSHA256(h)
				} else {
					hmacx.PutSHA1(h)
				}
			})
		}
	})
	if res.Status != sched.StatusDone {
		finds = append(finds, explore.Finding{Key: "status-" + res.Status, Detail: res.PanicVal + fmt.Sprint(res.Blocked)})
	}
	return res, finds, "finish-order=" + order
}

func c18Explore(c *Ctx, k c18Case, pre int) {
	run := func(prefix []int) (*sched.Result, []explore.Finding, string) {
		kk := k
		kk.Prefix = prefix
		if k.Threads > 0 {
			return c18Concurrent(kk)
		}
		return c18Exec(kk)
	}
	st := explore.Explore(run, explore.Options{Preemptions: pre, EnvDevs: -1, Deadline: c.Deadline})
	if st.HarnessError != "" {
		c.Fail("%s", st.HarnessError)
	}
	c.Eval(st.Executions)
	c.Res.Transitions += st.Points + st.Executions
	c.Res.Traces += st.Executions
	c.Res.States += st.Executions
	for o, n := range st.Outcomes {
		if k.Threads > 0 {
			c.Res.Outcomes["conc:"+o] += n
		} else {
			c.Res.Outcomes[o] += n
		}
	}
	if !st.Complete {
		c.Res.Exhaustive = false
	}
	for _, f := range st.Found {
		kk := k
		kk.Prefix = f.Choices
		c.Violation(f.Key, fmt.Sprintf("%v pool/schedule choices %v => %s", k.Ops, f.Choices, f.Detail), kk)
	}
}

// c18Scripts returns every sequence of at most n operations over {write(chunk), sum, reset} on slot s.
func c18Scripts(n, slot int) [][]hop {
	var alpha []hop
	for ci := 0; ci < c18ScriptChunks; ci++ {
		alpha = append(alpha, hop{Op: "write", Slot: slot, Arg: ci})
	}
	alpha = append(alpha, hop{Op: "sum", Slot: slot}, hop{Op: "reset", Slot: slot})
	out := [][]hop{{}}
	prev := [][]hop{{}}
	for l := 1; l <= n; l++ {
		var next [][]hop
		for _, p := range prev {
			for _, a := range alpha {
				next = append(next, append(append([]hop(nil), p...), a))
			}
		}
		out = append(out, next...)
		prev = next
	}
	return out
}

func init() {
	registry["C18"] = propImpl{
		Run: func(c *Ctx) {
			var item int64
			// (1) structured reuse histories: use1 ; put ; use2 [; put ; use3], every script ends with a final sum
			l2, l3 := 2, 0
			if c.Thorough() {
				l2, l3 = 3, 1
			}
			scripts := c18Scripts(l2, 0)
			for _, sha256on := range []bool{false, true} {
				for k1 := range c18KeyLens {
					for _, s1 := range scripts {
						for k2 := range c18KeyLens {
							// twins meet their base key, themselves and each other; base keys meet every base key
							if b1, t1 := c18TwinOf[k1]; t1 && k2 != b1 && k2 != k1 && c18TwinOf[k2] != b1 {
								continue
							}
							if b2, t2 := c18TwinOf[k2]; t2 && k1 != b2 && k1 != k2 && c18TwinOf[k1] != b2 {
								continue
							}
							item++
							if !c.Mine(item) {
								continue
							}
							if c.Expired() {
								c.Res.Exhaustive = false
								continue
							}
							for _, s2 := range scripts {
								ops := []hop{{Op: "acquire", Slot: 0, Arg: k1}}
								ops = append(ops, s1...)
								ops = append(ops, hop{Op: "sum", Slot: 0}, hop{Op: "put", Slot: 0}, hop{Op: "acquire", Slot: 0, Arg: k2})
								ops = append(ops, s2...)
								ops = append(ops, hop{Op: "sum", Slot: 0}, hop{Op: "put", Slot: 0})
								c.DistinctByConstruction++
								c18Explore(c, c18Case{SHA256: sha256on, Ops: ops}, 0)
								if l3 > 0 && len(s1) <= l3 && len(s2) <= l3 {
									for k3 := 0; k3 < c18BaseKeys; k3++ {
										for _, s3 := range c18Scripts(l3, 0) {
											ops3 := append(append([]hop(nil), ops...), hop{Op: "acquire", Slot: 0, Arg: k3})
											ops3 = append(ops3, s3...)
											ops3 = append(ops3, hop{Op: "sum", Slot: 0})
											c.DistinctByConstruction++
											c18Explore(c, c18Case{SHA256: sha256on, Ops: ops3}, 0)
										}
									}
								}
							}
						}
					}
				}
			}
			// (1b) totals of exactly 64 KiB and 128 KiB between keying and Reset / Sum (a STUN length is a 16-bit quantity)
			for _, sha256on := range []bool{false, true} {
				for _, ki := range []int{1, 4} {
					for _, split := range [][]int{{6}, {5, 1}, {4, 4}, {6, 6}, {4, 5, 1, 4}, {6, 1}} {
						for _, tail := range [][]hop{
							{{Op: "reset"}, {Op: "write", Arg: 1}, {Op: "sum"}},
							{{Op: "sum"}, {Op: "reset"}, {Op: "write", Arg: 3}, {Op: "sum"}},
							{{Op: "reset"}, {Op: "sum"}},
							{{Op: "sum"}},
							{{Op: "reset"}, {Op: "reset"}, {Op: "write", Arg: 2}, {Op: "sum"}},
						} {
							item++
							if !c.Mine(item) {
								continue
							}
							ops := []hop{{Op: "acquire", Arg: ki}}
							for _, ci := range split {
								ops = append(ops, hop{Op: "write", Arg: ci})
							}
							ops = append(ops, tail...)
							ops = append(ops, hop{Op: "put"}, hop{Op: "acquire", Arg: ki}, hop{Op: "write", Arg: 1}, hop{Op: "sum"}, hop{Op: "put"})
							c.DistinctByConstruction++
							c18Explore(c, c18Case{SHA256: sha256on, Ops: ops}, 0)
						}
					}
				}
			}
			// (1c) key contents: every pattern key, fresh and after a base key / before a base key, then itself again
			for _, sha256on := range []bool{false, true} {
				for pk := 100; pk < 100+c18Patterns*len(c18PatLens); pk++ {
					for _, other := range []int{-1, 4, 3} {
						item++
						if !c.Mine(item) {
							continue
						}
						var ops []hop
						if other >= 0 {
							ops = append(ops, hop{Op: "acquire", Arg: other}, hop{Op: "write", Arg: 1}, hop{Op: "sum"}, hop{Op: "put"})
						}
						ops = append(ops, hop{Op: "acquire", Arg: pk}, hop{Op: "write", Arg: 2}, hop{Op: "sum"}, hop{Op: "reset"}, hop{Op: "write", Arg: 1}, hop{Op: "sum"}, hop{Op: "put"})
						if other >= 0 {
							ops = append(ops, hop{Op: "acquire", Arg: other}, hop{Op: "sum"}, hop{Op: "put"})
						}
						ops = append(ops, hop{Op: "acquire", Arg: pk}, hop{Op: "sum"}, hop{Op: "put"})
						c.DistinctByConstruction++
						c18Explore(c, c18Case{SHA256: sha256on, Ops: ops}, 0)
					}
				}
			}
			// (2) free histories over two slots to depth d (first acquire on slot 0: slots are symmetric)
			depth := 5
			if c.Thorough() {
				depth = 6
			}
			keysFree := []int{1, 3, 4} // 1B, 64B, 65B
			chunksFree := []int{1, 3}  // 1B, 65B
			var ops []hop
			var live [2]bool
			var rec func()
			rec = func() {
				if len(ops) > 0 && ops[len(ops)-1].Op == "sum" {
					c.DistinctByConstruction++
					for feed := 0; feed < 3; feed++ {
						c18Explore(c, c18Case{SHA256: item%2 == 0, Ops: append([]hop(nil), ops...), Feed: feed}, 0)
					}
				}
				if len(ops) == depth {
					return
				}
				for slot := 0; slot < 2; slot++ {
					if !live[slot] {
						if slot == 1 && !live[0] && len(ops) == 0 {
							continue
						}
						for _, ki := range keysFree {
							next(&ops, &live, hop{Op: "acquire", Slot: slot, Arg: ki}, rec, c, &item)
						}
						continue
					}
					for _, ci := range chunksFree {
						next(&ops, &live, hop{Op: "write", Slot: slot, Arg: ci}, rec, c, &item)
					}
					next(&ops, &live, hop{Op: "sum", Slot: slot}, rec, c, &item)
					next(&ops, &live, hop{Op: "reset", Slot: slot}, rec, c, &item)
					next(&ops, &live, hop{Op: "put", Slot: slot}, rec, c, &item)
				}
			}
			rec()
			// (3) concurrent users of the pool, all interleavings within the preemption bound
			pb := 2
			if c.Thorough() {
				pb = 3
			}
			if c.Shard < 4 {
				k := c18Case{SHA256: c.Shard%2 == 1, Threads: 2 + c.Shard/2}
				c18Explore(c, k, pb)
				c.Extra("max_preemption_bound_completed", float64(pb))
			}
			c.Extra("free_history_depth", float64(depth))
			c.Extra("script_length", float64(l2))
			c.Sample(fmt.Sprint([]hop{{Op: "acquire", Arg: 5}, {Op: "write", Arg: 2}, {Op: "reset"}, {Op: "sum"}, {Op: "put"}, {Op: "acquire", Arg: 1}, {Op: "sum"}}))
		},
		Replay: func(c *Ctx, p json.RawMessage) {
			var k c18Case
			if err := json.Unmarshal(p, &k); err != nil {
				c.Fail("%v", err)
			}
			var finds []explore.Finding
			if k.Threads > 0 {
				_, finds, _ = c18Concurrent(k)
			} else {
				_, finds, _ = c18Exec(k)
			}
			for _, f := range finds {
				c.Violation(f.Key, f.Detail, k)
			}
		},
	}
}

func next(ops *[]hop, live *[2]bool, h hop, rec func(), c *Ctx, item *int64) {
	if len(*ops) == 2 {
		*item++
		if !c.Mine(*item) {
			return
		}
	}
	if c.Expired() {
		c.Res.Exhaustive = false
		return
	}
	was := *live
	switch h.Op {
	case "acquire":
		live[h.Slot] = true
	case "put":
		live[h.Slot] = false
	}
	*ops = append(*ops, h)
	rec()
	*ops = (*ops)[:len(*ops)-1]
	*live = was
}
