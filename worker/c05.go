package main

import (
	"bytes"
	"encoding/hex"
	"encoding/json"
	"fmt"
	"strings"

	stun "github.com/pion/stun/v3"

	"verif/ref"
)

// C05: FINGERPRINT follows RFC 5389 s15.5 and detects every single-bit
// corruption (and bursts up to 32 bits).

// refFingerprint is the oracle of the statement: the check passes iff the
// first FINGERPRINT attribute has a 4-byte value equal to CRC-32 over
// everything before the last 8 bytes of the raw message, XOR 0x5354554e.
// nFP is the number of FINGERPRINT attributes.
func refFingerprint(raw []byte) (verdict bool, nFP int, decodes bool) {
	m, _ := ref.Parse(raw)
	if m == nil {
		return false, 0, false
	}
	first := -1
	for i, a := range m.Attrs {
		if a.Type == 0x8028 {
			nFP++
			if first < 0 {
				first = i
			}
		}
	}
	if first < 0 {
		return false, 0, true
	}
	a := m.Attrs[first]
	if a.Len != 4 || len(raw) < 8 {
		return false, nFP, true
	}
	want := ref.Fingerprint(raw[:len(raw)-8])
	got := uint32(a.Value[0])<<24 | uint32(a.Value[1])<<16 | uint32(a.Value[2])<<8 | uint32(a.Value[3])
	return got == want, nFP, true
}

type c05Case struct {
	Hex  string `json:"hex"`
	Orig string `json:"orig,omitempty"` // the uncorrupted fingerprinted message, if this is a corruption case
}

// c05Verify compares Fingerprint.Check with the oracle on raw; if corrupted is
// set, raw is a corruption of a fingerprinted message and must not pass while
// FINGERPRINT is its only such attribute.
func c05Verify(m *stun.Message, raw []byte, corrupted bool) (outcome, key, detail string) {
	outcome, key, detail = c05Verify1(m, raw, corrupted)
	if key != "" || outcome == "undecodable" || len(raw) < 20 {
		return
	}
	// the same Message then receives shorter messages (the read loop of a client reuses one Message): the header
	// alone, and the header with the first attribute; what the longer message left behind must not be checked
	hdr := append([]byte(nil), raw[:20]...)
	hdr[2], hdr[3] = 0, 0
	shorter := [][]byte{hdr}
	if pm, _ := ref.Parse(raw); pm != nil && len(pm.Attrs) >= 2 {
		end := pm.Attrs[1].Off - 4
		one := append([]byte(nil), raw[:end]...)
		one[2], one[3] = byte((end-20)>>8), byte(end-20)
		shorter = append(shorter, one)
	}
	for _, s := range shorter {
		if _, k2, d2 := c05Verify1(m, s, false); k2 != "" {
			return "", k2 + "/shorter-message-in-reused-Message", "after the Message held a longer message: " + d2
		}
		// worst case for anything left behind: the Message first holds s plus a FINGERPRINT attribute carrying
		// exactly the value the checker computes over s (a peer that sends both datagrams controls it)
		v := ref.Fingerprint(s[:len(s)-8])
		prev := append(append([]byte(nil), s...), 0x80, 0x28, 0, 4, byte(v>>24), byte(v>>16), byte(v>>8), byte(v))
		prev[2], prev[3] = byte((len(prev)-20)>>8), byte(len(prev)-20)
		m.Raw = append(m.Raw[:0], prev...)
		if m.Decode() != nil {
			continue
		}
		if _, k2, d2 := c05Verify1(m, s, false); k2 != "" {
			return "", k2 + "/shorter-message-in-reused-Message", fmt.Sprintf("after the Message held %x: %s", clip(prev), d2)
		}
	}
	return
}

// The way the bytes get into the reused Message rotates with the input (a function of the bytes, so that a replay
// takes the same way): the check covers Raw up to its last 8 bytes, so an entry point that leaves more in Raw than it
// was given shows here.

func c05Verify1(m *stun.Message, raw []byte, corrupted bool) (outcome, key, detail string) {
	want, nFP, dec := refFingerprint(raw)
	var derr error
	entry := len(raw)
	if len(raw) > 0 {
		entry += int(raw[len(raw)-1])
	}
	switch entry % 4 {
	case 0:
		m.Raw = append(m.Raw[:0], raw...)
		derr = m.Decode()
	case 1:
		_, derr = m.Write(raw)
	case 2:
		derr = stun.Decode(raw, m)
	case 3:
		derr = m.UnmarshalBinary(raw)
	}
	if (derr == nil) != dec {
		return "", "decode-disagrees", fmt.Sprintf("Decode=%v reference decodes=%v on %x", derr, dec, clip(raw))
	}
	if derr != nil {
		return "undecodable", "", ""
	}
	var err error
	if p := catch(func() { err = stun.Fingerprint.Check(m) }); p != "" {
		return "", "check-panic", fmt.Sprintf("Fingerprint.Check %s on %x", p, clip(raw))
	}
	if !bytes.Equal(m.Raw, raw) {
		return "", "check-side-effect", "Fingerprint.Check changed Raw"
	}
	if (err == nil) != want {
		k := "accepts-invalid"
		if want {
			k = "rejects-valid"
		}
		return "", k, fmt.Sprintf("Fingerprint.Check = %v, RFC 5389 s15.5 verdict %v (%d FINGERPRINT attributes): %x", err, want, nFP, clip(raw))
	}
	if corrupted && nFP == 1 && err == nil {
		return "", "corruption-undetected", fmt.Sprintf("corrupted message passes the fingerprint check: %x", clip(raw))
	}
	// clones of the message verify exactly like it: a plain clone, one made from inside a ForEach callback (where
	// the source's attribute list is narrowed), and one made from a source whose Raw was refilled but not decoded yet
	clones := []*stun.Message{new(stun.Message), new(stun.Message), new(stun.Message)}
	cerr := []error{m.CloneTo(clones[0]), nil, nil}
	called := false
	if len(m.Attributes) > 0 {
		_ = m.ForEach(m.Attributes[len(m.Attributes)-1].Type, func(mm *stun.Message) error {
			if !called {
				called = true
				cerr[1] = mm.CloneTo(clones[1])
			}
			return nil
		})
	}
	if !called {
		cerr[1] = m.CloneTo(clones[1])
	}
	src := new(stun.Message)
	_, _ = src.Write(c01Big)
	src.Raw = append(src.Raw[:0], raw...)
	cerr[2] = src.CloneTo(clones[2])
	for i, cl := range clones {
		how := []string{"CloneTo", "CloneTo from inside a ForEach callback", "CloneTo from a source whose Raw was refilled and not decoded"}[i]
		if cerr[i] != nil || !bytes.Equal(cl.Raw, raw) {
			return "", "clone-differs", fmt.Sprintf("%s: err %v, Raw equal %v: %x", how, cerr[i], bytes.Equal(cl.Raw, raw), clip(raw))
		}
		if cerr2 := stun.Fingerprint.Check(cl); (cerr2 == nil) != want {
			return "", "clone-verdict-differs", fmt.Sprintf("%s: Fingerprint.Check on the clone = %v, on the message %v (RFC verdict %v): %x", how, cerr2, err, want, clip(raw))
		}
	}
	// a ForEach whose callback fails (at every attribute type the message has, at the last visit) leaves the message as
	// it was: the check gives the same verdict afterwards
	seen := map[stun.AttrType]bool{}
	for _, a := range append(stun.Attributes(nil), m.Attributes...) {
		if seen[a.Type] {
			continue
		}
		seen[a.Type] = true
		n, visits := 0, 0
		for _, b := range m.Attributes {
			if b.Type == a.Type {
				n++
			}
		}
		_ = m.ForEach(a.Type, func(*stun.Message) error {
			visits++
			if visits == n {
				return errC02Stop
			}
			return nil
		})
		if err3 := stun.Fingerprint.Check(m); (err3 == nil) != want {
			return "", "verdict-changes-after-failing-foreach", fmt.Sprintf("Fingerprint.Check = %v before and %v after a ForEach(%#04x) whose callback returned an error at its last visit (RFC verdict %v): %x", err, err3, uint16(a.Type), want, clip(raw))
		}
	}
	switch {
	case err == nil:
		return "pass", "", ""
	case nFP == 0:
		return "no-fingerprint", "", ""
	case nFP == 1:
		return "detected", "", ""
	}
	return "detected-multi", "", ""
}

// c05Layout builds a fingerprinted message with n attributes in front and one of five tails and checks it as built.
func c05Layout(n, tail int) (raw []byte, key, detail string) {
	b := new(stun.Message)
	b.TransactionID = [12]byte{0xca, 0xfe, 1, 2, 3, 4, 5, 6, 7, 8, 9, 10}
	b.Type = stun.NewType(stun.MethodCreatePermission, stun.ClassRequest)
	b.WriteHeader()
	for i := 0; i < n; i++ {
		b.Add(stun.AttrXORPeerAddress, []byte{0, 1, byte(i >> 8), byte(i), 10, 0, byte(i >> 8), byte(i)})
	}
	if tail >= 1 {
		_ = stun.NewShortTermIntegrity("secret").AddTo(b)
	}
	if tail == 2 || tail == 3 {
		b.Add(stun.AttrType(0x001C), patBytes(32, n)) // MESSAGE-INTEGRITY-SHA256
	}
	if tail >= 3 {
		b.Add(stun.AttrSoftware, []byte("behind the MAC"))
	}
	var aerr, cerr error
	if p := catch(func() { aerr = stun.Fingerprint.AddTo(b); cerr = stun.Fingerprint.Check(b) }); p != "" || aerr != nil || cerr != nil {
		return nil, "built-message-fails-check", fmt.Sprintf("%d attributes, tail layout %d (0 none, 1 MI, 2 MI+MI-SHA256, 3 MI+MI-SHA256+SOFTWARE, 4 MI+SOFTWARE), Fingerprint.AddTo = %v, then Fingerprint.Check on that very message = %v %s", n, tail, aerr, cerr, p)
	}
	return append([]byte(nil), b.Raw...), "", ""
}

func init() {
	registry["C05"] = propImpl{
		Run: func(c *Ctx) {
			nb, maxBurstFull := 1, 8
			if c.Thorough() {
				nb, maxBurstFull = 2, 12
			}
			var beforeOpts []c04Attr
			for l := 0; l <= 5; l++ {
				beforeOpts = append(beforeOpts, c04Attr{0x0006, l})
			}
			// attribute types one bit apart that the decoder treats as the same attribute (0x0020 / legacy 0x8020)
			beforeOpts = append(beforeOpts, c04Attr{0x0020, 8}, c04Attr{0x8020, 8})
			tid := [12]byte{0xca, 0xfe, 1, 2, 3, 4, 5, 6, 7, 8, 9, 10}
			m := new(stun.Message)
			var idx int64
			bad := false
			report := func(raw []byte, orig []byte, tag string) {
				c.Eval(1)
				out, k, d := c05Verify(m, raw, orig != nil)
				if k != "" {
					cs := c05Case{Hex: hex.EncodeToString(raw)}
					if orig != nil {
						cs.Orig = hex.EncodeToString(orig)
					}
					c.Violation(k, d, cs)
					bad = true
					return
				}
				c.Outcome(tag + ":" + out)
			}
			enumAttrLists(nb, beforeOpts, func(before []c04Attr) {
				for _, withMI := range []bool{false, true} {
					idx++
					if !c.Mine(idx) || c.Expired() || bad {
						continue
					}
					b := new(stun.Message)
					b.TransactionID = tid
					b.Type = stun.BindingSuccess
					b.WriteHeader()
					for i, a := range before {
						b.Add(stun.AttrType(a.T), c04Value(a.T, a.L, i))
					}
					if withMI {
						_ = stun.NewShortTermIntegrity("secret").AddTo(b)
					}
					pre := append([]byte(nil), b.Raw...)
					if p := catch(func() { _ = stun.Fingerprint.AddTo(b) }); p != "" {
						c.Violation("addto-panic", p, c05Case{Hex: hex.EncodeToString(pre)})
						return
					}
					// value written == CRC-32 of all preceding bytes with the final header length, XOR 0x5354554e
					span := append([]byte(nil), pre...)
					l := len(pre) - 20 + 8
					span[2], span[3] = byte(l>>8), byte(l)
					crcSlow := ref.CRC32(span) ^ 0x5354554e
					if crcSlow != ref.Fingerprint(span) {
						c.Fail("reference CRC implementations disagree")
					}
					wantRaw := append(append([]byte(nil), span...), 0x80, 0x28, 0x00, 0x04, byte(crcSlow>>24), byte(crcSlow>>16), byte(crcSlow>>8), byte(crcSlow))
					c.Eval(1)
					c.DistinctBytes(wantRaw)
					if !bytes.Equal(b.Raw, wantRaw) {
						c.Violation("addto-wrong-value", fmt.Sprintf("Fingerprint.AddTo produced %x, RFC 5389 s15.5 prescribes %x", clip(b.Raw[len(pre):]), wantRaw[len(pre):]), c05Case{Hex: hex.EncodeToString(pre)})
						return
					}
					signed := append([]byte(nil), b.Raw...)
					report(signed, nil, "fresh")
					// the same with a Message whose struct fields are out of step with its bytes at the time of the call
					// (Type / TransactionID assigned directly, or decoded from a type word with the two leading bits set):
					// the fingerprint covers the bytes, and the setter writes nothing but its attribute and the length
					for variant := 0; variant < 2; variant++ {
						d := new(stun.Message)
						src := append([]byte(nil), pre...)
						if variant == 1 {
							src[0] |= 0xC0
						}
						if _, err := d.Write(src); err != nil {
							continue
						}
						if variant == 0 {
							d.TransactionID = [12]byte{0xEE, 0xEE, 0xEE, 0xEE, 0xEE, 0xEE, 0xEE, 0xEE, 0xEE, 0xEE, 0xEE, 0xEE}
							d.Type = stun.BindingError
						}
						_ = stun.Fingerprint.AddTo(d)
						sp := append([]byte(nil), src...)
						sp[2], sp[3] = byte(l>>8), byte(l)
						cv := ref.Fingerprint(sp)
						want := append(sp, 0x80, 0x28, 0x00, 0x04, byte(cv>>24), byte(cv>>16), byte(cv>>8), byte(cv))
						c.Eval(1)
						if !bytes.Equal(d.Raw, want) {
							c.Violation("addto-wrong-value/fields-out-of-step", fmt.Sprintf("Fingerprint.AddTo on a Message whose Type/TransactionID fields differ from its bytes (variant %d) left %x, RFC 5389 s15.5 prescribes %x", variant, clip(d.Raw), clip(want)), c05Case{Hex: hex.EncodeToString(src), Orig: fmt.Sprint("out-of-step:", variant)})
							bad = true
							return
						}
					}
					{
						// signing is refused once FINGERPRINT is present; the refusal must not disturb the message
						d := &stun.Message{Raw: exactSlice(signed, 40)}
						if d.Decode() == nil {
							_ = stun.NewShortTermIntegrity("late").AddTo(d)
							c.Eval(1)
							if err := stun.Fingerprint.Check(d); err != nil || !bytes.Equal(d.Raw, signed) {
								c.Violation("fingerprint-fails-after-refused-integrity", fmt.Sprintf("after a refused MessageIntegrity.AddTo: Fingerprint.Check = %v, Raw changed: %v", err, !bytes.Equal(d.Raw, signed)), c05Case{Hex: hex.EncodeToString(signed), Orig: "refused-mi"})
								bad = true
							}
						}
					}
					if withMI {
						// a failed integrity attempt (wrong key) on the same Message must not disturb the fingerprint check
						d := &stun.Message{Raw: exactSlice(signed, 40)}
						if d.Decode() == nil {
							_ = stun.NewShortTermIntegrity("not the key").Check(d)
							c.Eval(1)
							if err := stun.Fingerprint.Check(d); err != nil {
								c.Violation("fingerprint-fails-after-integrity-attempt", fmt.Sprintf("Fingerprint.Check = %v on a valid fingerprinted message after MessageIntegrity.Check with a wrong key on the same Message", err), c05Case{Hex: hex.EncodeToString(signed), Orig: "mi-then-fp"})
								bad = true
							}
							_ = stun.NewShortTermIntegrity("secret").Check(d)
							if err := stun.Fingerprint.Check(d); err != nil && !bad {
								c.Violation("fingerprint-fails-after-integrity-attempt", fmt.Sprintf("Fingerprint.Check = %v after a successful MessageIntegrity.Check", err), c05Case{Hex: hex.EncodeToString(signed), Orig: "mi-then-fp"})
								bad = true
							}
							c.Outcome("fresh:after-integrity-attempts")
						}
					}
					if len(c.Res.Samples) < 2 {
						c.Sample(map[string]interface{}{"fingerprinted_message_hex": hex.EncodeToString(signed), "bits": len(signed) * 8})
					}
					nbits := len(signed) * 8
					mut := make([]byte, len(signed))
					// every single bit, and every burst (ends flipped, every interior pattern) up to maxBurstFull
					for start := 0; start < nbits && !bad; start++ {
						for bl := 1; bl <= maxBurstFull && start+bl <= nbits; bl++ {
							interior := 0
							if bl > 2 {
								interior = bl - 2
							}
							for pat := 0; pat < 1<<uint(interior); pat++ {
								copy(mut, signed)
								flip(mut, start)
								if bl > 1 {
									flip(mut, start+bl-1)
								}
								for k := 0; k < interior; k++ {
									if pat>>uint(k)&1 == 1 {
										flip(mut, start+1+k)
									}
								}
								c.DistinctByConstruction++
								tag := "burst"
								if bl == 1 {
									tag = "bitflip"
								}
								report(mut, signed, tag)
							}
						}
						// longer bursts: fixed family of interior patterns
						for bl := maxBurstFull + 1; bl <= 32 && start+bl <= nbits; bl++ {
							for fam := 0; fam < 6; fam++ {
								copy(mut, signed)
								flip(mut, start)
								flip(mut, start+bl-1)
								for k := 1; k < bl-1; k++ {
									on := false
									switch fam {
									case 0: // ends only
									case 1:
										on = true
									case 2:
										on = k%2 == 0
									case 3:
										on = k%2 == 1
									case 4:
										on = k == bl/2
									case 5:
										on = k != bl/2
									}
									if on {
										flip(mut, start+k)
									}
								}
								c.DistinctByConstruction++
								report(mut, signed, "longburst")
							}
						}
					}
				}
			})
			// layouts: n attributes in front (a CreatePermission with n peers), then what may stand between them and
			// FINGERPRINT: nothing, MESSAGE-INTEGRITY, MESSAGE-INTEGRITY and the RFC 8489 MESSAGE-INTEGRITY-SHA256,
			// other attributes behind the MAC. The message as built and the message as decoded both pass the check.
			{
				var ns []int
				for n := 0; n <= 80; n++ {
					ns = append(ns, n)
				}
				ns = append(ns, 100, 127, 128, 129, 255, 256, 257, 1000, 4000)
				var li int64
				for _, n := range ns {
					for tail := 0; tail < 5; tail++ {
						li++
						if !c.Mine(li) || bad {
							continue
						}
						c.Eval(1)
						raw, k, d := c05Layout(n, tail)
						if k != "" {
							c.Violation(k, d, c05Case{Orig: "layout", Hex: fmt.Sprint(n*8 + tail)})
							bad = true
							continue
						}
						report(raw, nil, "layout")
					}
				}
			}
			// a fingerprinted message sent through a client arrives as it was built (the fingerprint covers the header: a
			// client that touches type, length or transaction id after the fact invalidates it), whatever its transaction id
			if c.Shard == 0 {
				for ti, tidv := range [][12]byte{{}, {0xFF, 0xFF, 0xFF, 0xFF, 0xFF, 0xFF, 0xFF, 0xFF, 0xFF, 0xFF, 0xFF, 0xFF}, tid} {
					for way := 0; way < 3; way++ {
						for _, withMI := range []bool{false, true} {
							c.Eval(1)
							b := new(stun.Message)
							b.TransactionID = tidv
							b.Type = stun.BindingRequest
							b.WriteHeader()
							b.Add(stun.AttrSoftware, []byte("through a client"))
							if withMI {
								_ = stun.NewShortTermIntegrity("secret").AddTo(b)
							}
							_ = stun.Fingerprint.AddTo(b)
							why := throughClient(b, way)
							if why == "" {
								if err := stun.Fingerprint.Check(b); err != nil {
									why = "Fingerprint.Check on the message after sending it: " + err.Error()
								}
							}
							if why != "" {
								c.Violation("fingerprinted-message-through-client", fmt.Sprintf("transaction id #%d (0 all zero, 1 all ones, 2 ordinary), MESSAGE-INTEGRITY %v: %s", ti, withMI, why), c05Case{Orig: "client", Hex: fmt.Sprint(ti*8 + way*2 + map[bool]int{false: 0, true: 1}[withMI])})
								bad = true
							}
							c.Outcome("through-client")
						}
					}
				}
			}
			// the largest messages the length field allows
			if c.Shard == 1%c.NShards {
				for _, sz := range []int{65000, 65500, 65504, 65508, 65512, 65516, 65520} {
					b := new(stun.Message)
					b.TransactionID = tid
					b.WriteHeader()
					b.Add(stun.AttrData, make([]byte, sz))
					pre := append([]byte(nil), b.Raw...)
					_ = stun.Fingerprint.AddTo(b)
					span := append([]byte(nil), pre...)
					l := len(pre) - 20 + 8
					span[2], span[3] = byte(l>>8), byte(l)
					v := ref.Fingerprint(span)
					want := append(span, 0x80, 0x28, 0x00, 0x04, byte(v>>24), byte(v>>16), byte(v>>8), byte(v))
					c.Eval(1)
					if !bytes.Equal(b.Raw, want) {
						c.Violation("addto-wrong-value", fmt.Sprintf("Fingerprint.AddTo on a message with a %d-byte attribute wrote %x, RFC 5389 s15.5 prescribes %x", sz, b.Raw[len(b.Raw)-4:], want[len(want)-4:]), c05Case{Orig: "large", Hex: fmt.Sprint(sz)})
						continue
					}
					report(append([]byte(nil), b.Raw...), nil, "largest")
				}
			}
			// near-miss values in place of the right fingerprint: the plain CRC (no XOR), its complement, byte-swapped, off by one
			{
				b := new(stun.Message)
				b.TransactionID = tid
				b.WriteHeader()
				b.Add(stun.AttrSoftware, []byte("near-miss"))
				_ = stun.Fingerprint.AddTo(b)
				good := append([]byte(nil), b.Raw...)
				n := len(good)
				right := uint32(good[n-4])<<24 | uint32(good[n-3])<<16 | uint32(good[n-2])<<8 | uint32(good[n-1])
				for vi, v := range []uint32{right ^ 0x5354554e, ^right, right ^ 0xFFFFFFFF ^ 0x5354554e, right<<8 | right>>24, right + 1, right - 1, 0, 0x5354554e, right ^ 0x80000000, right ^ 1} {
					if !c.Mine(int64(vi)) {
						continue
					}
					mut := append([]byte(nil), good...)
					mut[n-4], mut[n-3], mut[n-2], mut[n-1] = byte(v>>24), byte(v>>16), byte(v>>8), byte(v)
					c.DistinctBytes(mut)
					report(mut, good, "nearmiss")
				}
			}
			// messages whose LAST attribute's value ends in what looks like a FINGERPRINT attribute (a DATA attribute
			// carrying a fingerprinted STUN message, a value that happens to end in 80 28 00 04 ....): AddTo appends
			for vi, inner := range [][]stun.Setter{
				{stun.BindingRequest, stun.Fingerprint},
				{stun.BindingSuccess, stun.NewSoftware("inner"), stun.Fingerprint},
			} {
				if !c.Mine(int64(vi)) {
					continue
				}
				im := stun.MustBuild(append([]stun.Setter{stun.NewTransactionIDSetter(tid)}, inner...)...)
				for _, tail := range [][]byte{im.Raw, append([]byte{1, 2, 3, 4}, im.Raw[len(im.Raw)-8:]...), {0x80, 0x28, 0x00, 0x04, 9, 9, 9, 9}} {
					b := new(stun.Message)
					b.TransactionID = tid
					b.Type = stun.NewType(stun.MethodSend, stun.ClassIndication)
					b.WriteHeader()
					b.Add(stun.AttrData, tail)
					pre := append([]byte(nil), b.Raw...)
					_ = stun.Fingerprint.AddTo(b)
					span := append([]byte(nil), pre...)
					l := len(pre) - 20 + 8
					span[2], span[3] = byte(l>>8), byte(l)
					cv := ref.Fingerprint(span)
					want := append(span, 0x80, 0x28, 0x00, 0x04, byte(cv>>24), byte(cv>>16), byte(cv>>8), byte(cv))
					c.Eval(1)
					if !bytes.Equal(b.Raw, want) {
						c.Violation("addto-wrong-value/value-ends-like-a-fingerprint", fmt.Sprintf("Fingerprint.AddTo on a message whose last attribute value ends in a FINGERPRINT TLV left %x, RFC 5389 s15.5 prescribes %x", clip(b.Raw[len(pre)-8:]), clip(want[len(pre)-8:])), c05Case{Hex: hex.EncodeToString(pre), Orig: "addto-plain"})
						bad = true
						break
					}
					report(append([]byte(nil), b.Raw...), nil, "nested")
				}
			}
			// values a "compatible" checker could take for the right one: CRCs over plausible other spans
			for bi, setters := range [][]stun.Setter{
				{stun.BindingRequest},
				{stun.BindingSuccess, stun.NewSoftware("alt")},
				{stun.BindingRequest, stun.NewUsername("u"), stun.NewShortTermIntegrity("pw")},
				{stun.BindingError, stun.NewRealm("0123456789abcdef"), stun.NewNonce("n")},
			} {
				if !c.Mine(int64(bi)) {
					continue
				}
				b := new(stun.Message)
				_ = b.Build(append([]stun.Setter{stun.NewTransactionIDSetter(tid)}, setters...)...)
				pre := append([]byte(nil), b.Raw...)
				_ = stun.Fingerprint.AddTo(b)
				good := append([]byte(nil), b.Raw...)
				n := len(good)
				right := uint32(good[n-4])<<24 | uint32(good[n-3])<<16 | uint32(good[n-2])<<8 | uint32(good[n-1])
				withLen := func(src []byte, l int) []byte {
					s := append([]byte(nil), src...)
					s[2], s[3] = byte(l>>8), byte(l)
					return s
				}
				final := len(pre) - 20 + 8
				alts := []uint32{
					ref.Fingerprint(pre),                      // length not yet including the attribute
					ref.Fingerprint(withLen(pre, final+8)),    // one attribute too many
					ref.Fingerprint(withLen(pre, final-4)),    // header counted, value not
					ref.Fingerprint(good[:n-4]),               // span including the attribute header
					ref.Fingerprint(withLen(pre, final)[20:]), // without the message header
					ref.Fingerprint(withLen(pre, 0)),          // length zeroed
					ref.CRC32(withLen(pre, final)),            // no XOR
					^ref.CRC32(withLen(pre, final)),
					ref.CRC32(pre) ^ 0x5354554e ^ 0xFFFFFFFF,
				}
				for _, v := range alts {
					if v == right {
						continue
					}
					mut := append([]byte(nil), good...)
					mut[n-4], mut[n-3], mut[n-2], mut[n-1] = byte(v>>24), byte(v>>16), byte(v>>8), byte(v)
					c.DistinctBytes(mut)
					report(mut, good, "alt-span")
				}
			}
			// arbitrary decodable messages with FINGERPRINT attributes of length 0..8 at every position, 0/4/8 trailing bytes
			var j int64
			for n := 1; n <= 3; n++ {
				for pos := 0; pos < n; pos++ {
					for fl := 0; fl <= 8; fl++ {
						for _, trail := range []int{0, 4, 8} {
							for _, second := range []bool{false, true} {
								for _, good := range []bool{false, true} {
									j++
									if !c.Mine(j) || bad {
										continue
									}
									var attrs []ref.EncodeAttr
									for i := 0; i < n; i++ {
										if i == pos {
											attrs = append(attrs, ref.EncodeAttr{Type: 0x8028, Value: c04Value(0x8028, fl, i)})
										} else if second && i == n-1 {
											attrs = append(attrs, ref.EncodeAttr{Type: 0x8028, Value: c04Value(0x11, 4, i)})
										} else {
											attrs = append(attrs, ref.EncodeAttr{Type: 0x0006, Value: c04Value(6, i+1, i)})
										}
									}
									raw := ref.Encode(0x0101, tid, attrs)
									for t := 0; t < trail; t++ {
										raw = append(raw, byte(0x70+t))
									}
									if good && fl == 4 {
										// make the first FINGERPRINT carry the value the statement defines, when it is not itself inside the covered span
										pm, _ := ref.Parse(raw)
										off := pm.Attrs[pos].Off
										if off >= len(raw)-8 {
											v := ref.Fingerprint(raw[:len(raw)-8])
											raw[off], raw[off+1], raw[off+2], raw[off+3] = byte(v>>24), byte(v>>16), byte(v>>8), byte(v)
										}
									}
									if second && good {
										// the LAST fingerprint carries the right value while the first does not: the first one decides
										pm, _ := ref.Parse(raw)
										if pm != nil {
											last := pm.Attrs[len(pm.Attrs)-1]
											if last.Type == 0x8028 && last.Len == 4 && last.Off >= len(raw)-8 && pos != len(pm.Attrs)-1 {
												v := ref.Fingerprint(raw[:len(raw)-8])
												raw[last.Off], raw[last.Off+1], raw[last.Off+2], raw[last.Off+3] = byte(v>>24), byte(v>>16), byte(v>>8), byte(v)
											}
										}
									}
									c.DistinctBytes(raw)
									report(raw, nil, "crafted")
								}
							}
						}
					}
				}
			}
			if c.Expired() {
				c.Res.Exhaustive = false
			}
			c.Extra("max_attrs_before", float64(nb))
			c.Extra("burst_len_all_interior_patterns", float64(maxBurstFull))
			c.Extra("burst_len_pattern_family", "up to 32 bits x 6 interior patterns")
		},
		Replay: func(c *Ctx, p json.RawMessage) {
			var k c05Case
			if err := json.Unmarshal(p, &k); err != nil {
				c.Fail("%v", err)
			}
			raw, _ := hex.DecodeString(k.Hex)
			if k.Orig == "client" {
				var v int
				fmt.Sscan(k.Hex, &v)
				b := new(stun.Message)
				b.TransactionID = [][12]byte{{}, {0xFF, 0xFF, 0xFF, 0xFF, 0xFF, 0xFF, 0xFF, 0xFF, 0xFF, 0xFF, 0xFF, 0xFF}, {0xca, 0xfe, 1, 2, 3, 4, 5, 6, 7, 8, 9, 10}}[v/8]
				b.Type = stun.BindingRequest
				b.WriteHeader()
				b.Add(stun.AttrSoftware, []byte("through a client"))
				if v%2 == 1 {
					_ = stun.NewShortTermIntegrity("secret").AddTo(b)
				}
				_ = stun.Fingerprint.AddTo(b)
				why := throughClient(b, v%8/2)
				if why == "" {
					if err := stun.Fingerprint.Check(b); err != nil {
						why = err.Error()
					}
				}
				if why != "" {
					c.Violation("fingerprinted-message-through-client", why, k)
				}
				return
			}
			if k.Orig == "layout" {
				var v int
				fmt.Sscan(k.Hex, &v)
				if _, key, d := c05Layout(v/8, v%8); key != "" {
					c.Violation(key, d, k)
				}
				return
			}
			if k.Orig == "large" {
				var sz int
				fmt.Sscan(k.Hex, &sz)
				b := new(stun.Message)
				b.WriteHeader()
				b.Add(stun.AttrData, make([]byte, sz))
				pre := append([]byte(nil), b.Raw...)
				_ = stun.Fingerprint.AddTo(b)
				span := append([]byte(nil), pre...)
				l := len(pre) - 20 + 8
				span[2], span[3] = byte(l>>8), byte(l)
				v := ref.Fingerprint(span)
				want := append(span, 0x80, 0x28, 0x00, 0x04, byte(v>>24), byte(v>>16), byte(v>>8), byte(v))
				if !bytes.Equal(b.Raw, want) {
					c.Violation("addto-wrong-value", "Fingerprint.AddTo differs from RFC 5389 s15.5 on a large message", k)
				}
				return
			}
			if k.Orig == "addto-plain" {
				b := new(stun.Message)
				if _, err := b.Write(raw); err != nil {
					return
				}
				_ = stun.Fingerprint.AddTo(b)
				sp := append([]byte(nil), raw...)
				l := len(raw) - 20 + 8
				sp[2], sp[3] = byte(l>>8), byte(l)
				cv := ref.Fingerprint(sp)
				want := append(sp, 0x80, 0x28, 0x00, 0x04, byte(cv>>24), byte(cv>>16), byte(cv>>8), byte(cv))
				if !bytes.Equal(b.Raw, want) {
					c.Violation("addto-wrong-value/value-ends-like-a-fingerprint", "Fingerprint.AddTo did not append the RFC value", k)
				}
				return
			}
			if strings.HasPrefix(k.Orig, "out-of-step:") {
				d := new(stun.Message)
				if _, err := d.Write(raw); err != nil {
					return
				}
				if k.Orig == "out-of-step:0" {
					d.TransactionID = [12]byte{0xEE, 0xEE, 0xEE, 0xEE, 0xEE, 0xEE, 0xEE, 0xEE, 0xEE, 0xEE, 0xEE, 0xEE}
					d.Type = stun.BindingError
				}
				_ = stun.Fingerprint.AddTo(d)
				sp := append([]byte(nil), raw...)
				l := len(raw) - 20 + 8
				sp[2], sp[3] = byte(l>>8), byte(l)
				cv := ref.Fingerprint(sp)
				want := append(sp, 0x80, 0x28, 0x00, 0x04, byte(cv>>24), byte(cv>>16), byte(cv>>8), byte(cv))
				if !bytes.Equal(d.Raw, want) {
					c.Violation("addto-wrong-value/fields-out-of-step", "Fingerprint.AddTo with struct fields out of step with the bytes", k)
				}
				return
			}
			if k.Orig == "refused-mi" {
				d := &stun.Message{Raw: exactSlice(raw, 40)}
				if d.Decode() == nil {
					_ = stun.NewShortTermIntegrity("late").AddTo(d)
					if err := stun.Fingerprint.Check(d); err != nil || !bytes.Equal(d.Raw, raw) {
						c.Violation("fingerprint-fails-after-refused-integrity", fmt.Sprint(err), k)
					}
				}
				return
			}
			if k.Orig == "mi-then-fp" {
				d := &stun.Message{Raw: exactSlice(raw, 40)}
				if d.Decode() == nil {
					_ = stun.NewShortTermIntegrity("not the key").Check(d)
					err1 := stun.Fingerprint.Check(d)
					_ = stun.NewShortTermIntegrity("secret").Check(d)
					err2 := stun.Fingerprint.Check(d)
					if err1 != nil || err2 != nil {
						c.Violation("fingerprint-fails-after-integrity-attempt", fmt.Sprintf("%v / %v", err1, err2), k)
					}
				}
				return
			}
			if _, has, dec := refFingerprint(raw); dec && has == 0 && k.Orig == "" {
				// an AddTo case: message before fingerprinting
				b := &stun.Message{Raw: exactSlice(raw, 32)}
				if err := b.Decode(); err == nil {
					_ = stun.Fingerprint.AddTo(b)
					span := append([]byte(nil), raw...)
					l := len(raw) - 20 + 8
					span[2], span[3] = byte(l>>8), byte(l)
					v := ref.Fingerprint(span)
					want := append(span, 0x80, 0x28, 0x00, 0x04, byte(v>>24), byte(v>>16), byte(v>>8), byte(v))
					if !bytes.Equal(b.Raw, want) {
						c.Violation("addto-wrong-value", "Fingerprint.AddTo differs from RFC 5389 s15.5", k)
					}
				}
				return
			}
			if _, vk, d := c05Verify(new(stun.Message), raw, k.Orig != ""); vk != "" {
				c.Violation(vk, d, k)
			}
		},
	}
}

func flip(b []byte, bit int) { b[bit/8] ^= 0x80 >> uint(bit%8) }
