package main

import (
	"bytes"
	"encoding/hex"
	"encoding/json"
	"fmt"
	"hash/fnv"
	"runtime"
	"strings"
	"unsafe"

	stun "github.com/pion/stun/v3"
)

// C01: decoding arbitrary bytes is total and memory-safe.

var c01EntryNames = []string{"Decode(data,m)", "Message.Decode", "Write", "UnmarshalBinary", "GobDecode", "ReadFrom", "CloneTo"}
var c01Slacks = []int{0, 1, 3, 64}

type c01Variant struct {
	Entry int  `json:"entry"`
	Slack int  `json:"slack"`
	Used  bool `json:"used"`
	Trunc bool `json:"trunc"`         // ReadFrom only: m.Raw one byte shorter than the datagram
	New   bool `json:"new,omitempty"` // the Message comes from stun.New() and lives between two other Messages from stun.New()
}

type udpReader struct{ d []byte }

func (r *udpReader) Read(p []byte) (int, error) { return copy(p, r.d), nil }

var c01Big = func() []byte {
	m := stun.MustBuild(stun.BindingRequest, stun.NewTransactionIDSetter([12]byte{9, 9, 9}),
		stun.NewUsername("previous-user"), stun.NewRealm("previous-realm"), stun.NewNonce("previous-nonce-value"),
		stun.NewSoftware("previous software string, rather long, to leave stale attributes behind"), stun.Fingerprint)
	return append([]byte(nil), m.Raw...)
}()

var c01MemStats runtime.MemStats

// heapAllocBytes is exact (ReadMemStats flushes the per-P caches) but stops
// the world, so the allocation clause is measured on a thinned set of inputs.
func heapAllocBytes() uint64 {
	runtime.ReadMemStats(&c01MemStats)
	return c01MemStats.TotalAlloc
}

// exactSlice returns a copy of b whose capacity is exactly len(b)+slack; the
// backing array ends there, so any read past cap faults the bounds check.
func exactSlice(b []byte, slack int) []byte {
	back := make([]byte, len(b)+slack)
	copy(back, b)
	for i := len(b); i < len(back); i++ {
		back[i] = 0xEE
	}
	return back[: len(b) : len(b)+slack]
}

// c01Run performs one entry point call and checks the result. It returns the
// signature of the decode result ("" with key != "" on a violation).
func c01Run(in []byte, v c01Variant, wantMeasure bool) (sig uint64, ok bool, key, detail string) {
	// An over-budget allocation reading must repeat on 3 further measurements
	// (the counter is process-wide: a GC cycle emptying fmt's sync.Pool or a
	// runtime timer can land inside the window once, a real input-proportional
	// allocation lands there every time).
	for attempt := 0; ; attempt++ {
		sig, ok, key, detail = c01Run1(in, v, wantMeasure)
		if !strings.HasPrefix(key, "alloc/") || attempt >= 3 {
			return
		}
	}
}

// c01Prev, when set, is what a used Message held before the input (see sweepPrefixAfterFull); it got there
// through the same entry point.
var c01Prev []byte

// c01Behind, when set, is what the caller's buffer holds behind the input (within the capacity of the slice).
var c01Behind []byte

func c01Prime(m *stun.Message, entry int, prev []byte) {
	data := append([]byte(nil), prev...)
	switch entry {
	case 0:
		_ = stun.Decode(data, m)
	case 1:
		m.Raw = data
		_ = m.Decode()
	case 2:
		_, _ = m.Write(data)
	case 3:
		_ = m.UnmarshalBinary(data)
	case 4:
		_ = m.GobDecode(data)
	case 5:
		m.Raw = make([]byte, 0, len(data)+64)
		_, _ = m.ReadFrom(&udpReader{d: data})
	case 6:
		_ = (&stun.Message{Raw: data}).CloneTo(m)
	}
}

func c01Run1(in []byte, v c01Variant, wantMeasure bool) (sig uint64, ok bool, key, detail string) {
	var m *stun.Message
	var nb *msgNeighbours
	defer func() {
		if what := nb.changed(); what != "" && key == "" {
			sig, ok, key, detail = 0, false, "neighbour-changed", fmt.Sprintf("%s of %d bytes into a Message from stun.New(): %s", c01EntryNames[v.Entry], len(in), what)
		}
	}()
	if v.New {
		m, nb = newBetweenNeighbours()
	} else if v.Used && c01Prev != nil {
		m = new(stun.Message)
		c01Prime(m, v.Entry, c01Prev)
	} else if v.Used {
		m = new(stun.Message)
		if _, err := m.Write(c01Big); err != nil {
			return 0, false, "harness", "big message does not decode: " + err.Error()
		}
	} else {
		m = new(stun.Message)
	}
	data := exactSlice(in, v.Slack)
	if c01Behind != nil {
		buf := append(append([]byte(nil), in...), c01Behind...)
		data = buf[:len(in)] // the input as a prefix of a larger buffer: spare capacity holds more of the message
	}
	effective := in
	var err error
	var alloc0, alloc1 uint64
	measure := false
	p := catch(func() {
		switch v.Entry {
		case 0:
			if v.Slack != 64 {
				m.Raw = make([]byte, 0, len(in)+v.Slack)
			} else if !v.Used && !v.New {
				m.Raw = nil
			}
			if wantMeasure {
				measure = true
				alloc0 = heapAllocBytes()
			}
			err = stun.Decode(data, m)
			if wantMeasure {
				alloc1 = heapAllocBytes()
			}
		case 1:
			m.Raw = data
			if wantMeasure {
				measure = true
				alloc0 = heapAllocBytes()
			}
			err = m.Decode()
			if wantMeasure {
				alloc1 = heapAllocBytes()
			}
		case 2:
			if v.Slack != 64 {
				m.Raw = make([]byte, 0, len(in)+v.Slack)
			}
			var n int
			n, err = m.Write(data)
			if n != len(data) {
				key, detail = "write-count", fmt.Sprintf("Write returned n=%d for %d bytes", n, len(data))
			}
		case 3:
			if v.Slack != 64 {
				m.Raw = make([]byte, 0, len(in)+v.Slack)
			}
			err = m.UnmarshalBinary(data)
		case 4:
			if v.Slack != 64 {
				m.Raw = make([]byte, 0, len(in)+v.Slack)
			}
			err = m.GobDecode(data)
		case 5:
			capv := len(in) + v.Slack
			if v.Trunc {
				capv = len(in) - 1
				if capv < 0 {
					capv = 0
				}
				effective = in[:capv]
			}
			if v.New {
				// the storage stun.New() gave it: a longer datagram is cut to it, like any datagram read into a short buffer
				if capv = cap(m.Raw); capv < len(in) {
					effective = in[:capv]
				}
			} else if v.Used && v.Slack == 64 && !v.Trunc && cap(m.Raw) >= len(in) {
				// the read loop of a client: the Message that held the previous (large, valid) datagram is read into again
			} else {
				m.Raw = make([]byte, capv/2, capv)
			}
			var n int64
			n, err = m.ReadFrom(&udpReader{d: data})
			if int(n) != len(effective) {
				key, detail = "readfrom-count", fmt.Sprintf("ReadFrom returned n=%d, reader delivered %d", n, len(effective))
			}
		case 6:
			src := &stun.Message{Raw: data}
			if v.Used && len(in) >= 20 && (len(in)-20)%4 == 0 {
				// the source holds a stale attribute table: it decoded a different, valid message of the same length
				fill := make([]byte, len(in))
				putHeader(fill, 0x0001, len(in)-20, goodCookie, 9)
				for off := 20; off+4 <= len(in); off += 4 {
					fill[off], fill[off+1] = 0x7F, byte(off)
				}
				src.Raw = fill
				if src.Decode() != nil {
					src = &stun.Message{}
				}
				src.Raw = data
			}
			if v.Slack != 64 {
				m.Raw = make([]byte, 0, len(in)+v.Slack)
			}
			err = src.CloneTo(m)
		}
	})
	name := c01EntryNames[v.Entry]
	if p != "" {
		return 0, false, "panic/" + name, fmt.Sprintf("%s %s; input %x (cap=len+%d, used=%v)", name, p, clip(in), v.Slack, v.Used)
	}
	if key != "" {
		return 0, false, key, detail
	}
	if measure {
		if d := alloc1 - alloc0; d > uint64(64*len(in)+4096) {
			return 0, false, "alloc/" + name, fmt.Sprintf("%s allocated %d bytes for a %d-byte input", name, d, len(in))
		}
	}
	if err != nil {
		return 0, false, "", ""
	}
	// Success: views.
	if !stun.IsMessage(effective) {
		return 0, false, "ismessage", fmt.Sprintf("%s succeeded but IsMessage is false: %x", name, clip(in))
	}
	raw := m.Raw
	if len(raw) < 20 {
		return 0, false, "raw-short", fmt.Sprintf("%s succeeded with len(Raw)=%d", name, len(raw))
	}
	if !bytes.Equal(raw, effective) {
		return 0, false, "raw-differs", fmt.Sprintf("%s: m.Raw differs from the input", name)
	}
	declared := int(raw[2])<<8 | int(raw[3])
	if int(m.Length) != declared || 20+declared > len(raw) {
		return 0, false, "length", fmt.Sprintf("%s: Length=%d header says %d len(Raw)=%d", name, m.Length, declared, len(raw))
	}
	pos := 20
	h := fnv.New64a()
	for i, a := range m.Attributes {
		if pos+4 > 20+declared {
			return 0, false, "view-outside-body", fmt.Sprintf("%s: attribute %d header at %d is outside the declared body (20+%d): %x", name, i, pos, declared, clip(in))
		}
		l := int(raw[pos+2])<<8 | int(raw[pos+3])
		if len(a.Value) != l || int(a.Length) != l {
			return 0, false, "view-length", fmt.Sprintf("%s: attribute %d exposes %d bytes (Length field %d), wire declares %d: %x", name, i, len(a.Value), a.Length, l, clip(in))
		}
		if pos+4+pad4(l) > 20+declared {
			return 0, false, "view-outside-body", fmt.Sprintf("%s: attribute %d value [%d,%d) leaves the declared body (20+%d): %x", name, i, pos+4, pos+4+pad4(l), declared, clip(in))
		}
		if l > 0 && unsafe.SliceData(a.Value) != &raw[pos+4] {
			return 0, false, "view-position", fmt.Sprintf("%s: attribute %d value does not start at Raw[%d]: %x", name, i, pos+4, clip(in))
		}
		h.Write([]byte{byte(a.Type >> 8), byte(a.Type), byte(l >> 8), byte(l)})
		h.Write(a.Value)
		pos += 4 + pad4(l)
	}
	if pos != 20+declared {
		return 0, false, "views-incomplete", fmt.Sprintf("%s: attributes end at %d, declared body ends at %d: %x", name, pos, 20+declared, clip(in))
	}
	// the entry points that copy their input: the caller reuses its slice afterwards (a read buffer), the decoded
	// message still holds the bytes that were decoded
	if v.Entry != 1 {
		for i := range data {
			data[i] ^= 0xA5
		}
		if !bytes.Equal(m.Raw, effective) {
			return 0, false, "input-aliased", fmt.Sprintf("%s: after the caller overwrote its input slice m.Raw changed with it: the message views the caller's memory: %x", name, clip(in))
		}
		for i, a := range m.Attributes {
			if len(a.Value) > 0 && (uintptr(unsafe.Pointer(unsafe.SliceData(a.Value))) < uintptr(unsafe.Pointer(unsafe.SliceData(m.Raw))) || uintptr(unsafe.Pointer(unsafe.SliceData(a.Value))) >= uintptr(unsafe.Pointer(unsafe.SliceData(m.Raw)))+uintptr(len(m.Raw))) {
				return 0, false, "input-aliased", fmt.Sprintf("%s: attribute %d does not view m.Raw", name, i)
			}
		}
	}
	return h.Sum64() | 1, true, "", ""
}

func c01Variants(wide bool) []c01Variant {
	var vs []c01Variant
	if !wide {
		return []c01Variant{{Entry: 1, Slack: 0}, {Entry: 0, Slack: 0}, {Entry: 1, Slack: 3, Used: true}}
	}
	for e := 0; e < 7; e++ {
		for _, s := range c01Slacks {
			for _, u := range []bool{false, true} {
				vs = append(vs, c01Variant{Entry: e, Slack: s, Used: u})
			}
		}
	}
	vs = append(vs, c01Variant{Entry: 5, Trunc: true}, c01Variant{Entry: 5, Trunc: true, Used: true})
	for _, e := range []int{0, 2, 3, 4, 5, 6} {
		vs = append(vs, c01Variant{Entry: e, Slack: 64, New: true})
	}
	return vs
}

type c01Replay struct {
	Hex    string     `json:"hex"`
	Prev   string     `json:"prev,omitempty"`
	Behind string     `json:"behind,omitempty"`
	V      c01Variant `json:"v"`
	// cross-variant disagreement: second variant
	V2 *c01Variant `json:"v2,omitempty"`
	// reader-as-environment case (c01_reader.go): the script of answers
	Reader string `json:"reader_script,omitempty"`
}

func c01Input(c *Ctx, in []byte, vs []c01Variant, wc *watchCase, measure bool) (accepted bool) {
	var refSig uint64
	var refOK, have bool
	var refV c01Variant
	for _, v := range vs {
		wc.Detail = c01EntryNames[v.Entry] + " does not return"
		wc.Replay = c01Replay{Hex: hex.EncodeToString(in), Prev: hex.EncodeToString(c01Prev), Behind: hex.EncodeToString(c01Behind), V: v}
		c.Watch(wc)
		c.Eval(1)
		sig, ok, key, detail := c01Run(in, v, measure)
		if measure && v.Entry <= 1 {
			c.Res.Extra["sum_alloc_measurements"] = c.Res.Extra["sum_alloc_measurements"].(float64) + 1
		}
		if key != "" {
			c.Violation(key, detail, c01Replay{Hex: hex.EncodeToString(in), Prev: hex.EncodeToString(c01Prev), Behind: hex.EncodeToString(c01Behind), V: v})
			return false
		}
		if v.Trunc || (v.New && v.Entry == 5) {
			continue // a different effective input (cut to the storage the Message has)
		}
		if !have {
			refSig, refOK, refV, have = sig, ok, v, true
		} else if ok != refOK || sig != refSig {
			v2 := v
			c.Violation("variant-disagreement", fmt.Sprintf("%s(cap+%d,used=%v) ok=%v vs %s(cap+%d,used=%v) ok=%v on %x",
				c01EntryNames[refV.Entry], refV.Slack, refV.Used, refOK, c01EntryNames[v.Entry], v.Slack, v.Used, ok, clip(in)),
				c01Replay{Hex: hex.EncodeToString(in), V: refV, V2: &v2})
			return false
		}
	}
	return refOK
}

func init() {
	registry["C01"] = propImpl{
		Run: func(c *Ctx) {
			c.startWatchdog(10e9)
			c.Res.Extra["sum_alloc_measurements"] = float64(0)
			bd, bdw, ba := 20, 16, 6
			if c.Thorough() {
				bd, bdw, ba = 28, 24, 8
			}
			wc := &watchCase{Key: "hang"}
			narrow, wide := c01Variants(false), c01Variants(true)
			mk := func(vs []c01Variant, tag string) func(in *decodeInput, seq int64) {
				return func(in *decodeInput, seq int64) {
					c.DistinctBytes([]byte(tag), in.Bytes)
					declared := 0
					if len(in.Bytes) >= 20 {
						declared = int(in.Bytes[2])<<8 | int(in.Bytes[3])
					}
					// the allocation clause is measured on a thinned set: exact-size inputs, the large family, and inputs
					// that declare far more than they carry (an allocation sized from the declared length shows there)
					measure := in.Fam == "large" || (seq%4 == 0 && len(in.Bytes) >= 20 && len(in.Bytes) == 20+declared) ||
						(seq%16 == 1 && len(in.Bytes) >= 20 && declared >= 0x7FFF)
					acc := c01Input(c, in.Bytes, vs, wc, measure)
					if acc {
						c.Outcome(tag + ":" + in.Fam + ":accept")
					} else {
						c.Outcome(tag + ":" + in.Fam + ":reject")
					}
					if seq%2003 == 7 && len(in.Bytes) > 24 {
						c.Sample(map[string]interface{}{"input_hex": hex.EncodeToString(in.Bytes), "accepted": acc, "variants": len(vs)})
					}
				}
			}
			sweepLengthStructures(c, bd, true, mk(narrow, "narrow"))
			sweepLengthStructures(c, bdw, false, mk(wide, "wide"))
			sweepTinyBodies(c, ba, mk(narrow, "narrow"))
			sweepLarge(c, mk(wide, "wide"))
			sweepTypes(c, mk(narrow, "narrow"))
			sweepShort(c, mk(wide, "wide"))
			sweepMsgTypes(c, mk(narrow, "narrow"))
			sweepLongTail(c, mk(narrow, "narrow"))
			var reuse []c01Variant
			for _, e := range []int{0, 2, 3, 4, 5, 6} {
				reuse = append(reuse, c01Variant{Entry: e, Slack: 64, Used: true})
			}
			prefixFn := mk(reuse, "reuse")
			sweepPrefixAfterFull(c, func(in *decodeInput, seq int64) {
				c01Prev = in.Prev
				prefixFn(in, seq)
				c01Prev = nil
			})
			sweepFullAfterPrefix(c, func(in *decodeInput, seq int64) {
				c01Prev = in.Prev
				prefixFn(in, seq)
				c01Prev = nil
			})
			roomy := mk(wide, "roomy")
			sweepPrefixInRoomySlice(c, func(in *decodeInput, seq int64) {
				c01Behind = append([]byte{}, in.Bytes[len(in.Bytes):cap(in.Bytes)]...)
				roomy(in, seq)
				c01Behind = nil
			})
			c.Watch(nil)
			c01ReaderSweep(c)
			if c.Expired() {
				c.Res.Exhaustive = false
			}
			c.Extra("body_bound_full_product", float64(bd))
			c.Extra("body_bound_entrypoint_product", float64(bdw))
			c.Extra("tiny_alphabet_body_bytes", float64(ba))
			c.Extra("entry_points", c01EntryNames)
			c.Extra("capacity_slacks", c01Slacks)
		},
		Replay: func(c *Ctx, p json.RawMessage) {
			c.startWatchdog(5e9)
			c.Res.Extra["sum_alloc_measurements"] = float64(0)
			var r c01Replay
			if err := json.Unmarshal(p, &r); err != nil {
				c.Fail("%v", err)
			}
			b, _ := hex.DecodeString(r.Hex)
			if r.Reader != "" {
				if key, detail := c01ReaderCase(r.Reader, b, r.V.Used); key != "" {
					c.Violation(key, detail, r)
				}
				return
			}
			if r.Prev != "" {
				c01Prev, _ = hex.DecodeString(r.Prev)
			}
			if r.Behind != "" {
				c01Behind, _ = hex.DecodeString(r.Behind)
			}
			vs := []c01Variant{r.V}
			if r.V2 != nil {
				vs = append(vs, *r.V2)
			}
			c01Input(c, b, vs, &watchCase{Key: "hang"}, true)
			c.Watch(nil)
		},
	}
}
