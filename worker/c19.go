package main

import (
	"bytes"
	"encoding/json"
	"fmt"
	"io"
	"sync"

	stun "github.com/pion/stun/v3"
)

// C19: message type layout is RFC 5389 figure 3 and a bijection.
//
// Reference, written from the figure (bit 0 = least significant of the 14-bit
// field): M0-M3 -> bits 0-3, C0 -> bit 4, M4-M6 -> bits 5-7, C1 -> bit 8,
// M7-M11 -> bits 9-13, two leading bits zero.

func refTypeEncode(method uint16, class uint8) uint16 {
	var v uint16
	mpos := []uint{0, 1, 2, 3, 5, 6, 7, 9, 10, 11, 12, 13}
	for i, p := range mpos {
		if method>>uint(i)&1 == 1 {
			v |= 1 << p
		}
	}
	if class&1 == 1 {
		v |= 1 << 4
	}
	if class>>1&1 == 1 {
		v |= 1 << 8
	}
	return v
}

func refTypeDecode(v uint16) (method uint16, class uint8) {
	mpos := []uint{0, 1, 2, 3, 5, 6, 7, 9, 10, 11, 12, 13}
	for i, p := range mpos {
		if v>>p&1 == 1 {
			method |= 1 << uint(i)
		}
	}
	class = uint8(v>>4&1) | uint8(v>>8&1)<<1
	return
}

// c19Bodies are attribute sections a message may carry next to its type: none of them has a say in the type.
var c19Bodies = func() [][]byte {
	attr := func(t uint16, v []byte) []byte {
		b := []byte{byte(t >> 8), byte(t), byte(len(v) >> 8), byte(len(v))}
		b = append(b, v...)
		for len(b)%4 != 0 {
			b = append(b, 0)
		}
		return b
	}
	xor4 := []byte{0, 1, 0x12, 0x34, 1, 2, 3, 4}
	return [][]byte{
		attr(0x8020, xor4), // XOR-MAPPED-ADDRESS under its pre-RFC code point
		attr(0x0020, xor4),
		attr(0x8022, []byte("c19")),
		attr(0x0009, []byte{0, 0, 4, 1, 'n', 'o'}),
		attr(0x0008, make([]byte, 20)),
		attr(0x8028, []byte{1, 2, 3, 4}),
		attr(0x7FFF, nil),
		append(attr(0x8020, xor4), attr(0x8028, []byte{1, 2, 3, 4})...),
		append(attr(0x0006, []byte("user")), attr(0x8020, xor4)...),
		// something BEHIND the attributes that are meant to come last (a relay that appends, RFC 5389 15.4/15.5:
		// "ignore", not "refuse"): the decoder accepts such messages, and their type is still their type word
		append(attr(0x8028, []byte{1, 2, 3, 4}), attr(0x8022, []byte("c19"))...),
		append(attr(0x0008, make([]byte, 20)), attr(0x0006, []byte("user"))...),
		append(append(attr(0x0008, make([]byte, 20)), attr(0x8028, []byte{1, 2, 3, 4})...), attr(0x0020, xor4)...),
		append(attr(0x8028, []byte{1, 2, 3, 4}), attr(0x0008, make([]byte, 20))...),
	}
}()

// c19Conn records what is written and never delivers anything.
type c19Conn struct {
	mu     sync.Mutex
	writes [][]byte
	closed chan struct{}
	once   sync.Once
}

func (c *c19Conn) Read(p []byte) (int, error) { <-c.closed; return 0, io.EOF }
func (c *c19Conn) Write(p []byte) (int, error) {
	c.mu.Lock()
	c.writes = append(c.writes, append([]byte(nil), p...))
	c.mu.Unlock()
	return len(p), nil
}
func (c *c19Conn) Close() error { c.once.Do(func() { close(c.closed) }); return nil }

// c19ThroughClient sends a message of type t through Indicate, Start and Do(m, nil): the type word on the wire is
// the message's, and the message's type is still t afterwards.
func c19ThroughClient(t stun.MessageType, want uint16) (string, string) {
	conn := &c19Conn{closed: make(chan struct{})}
	cl, err := stun.NewClient(conn, stun.WithNoRetransmit)
	if err != nil {
		return "harness", err.Error()
	}
	defer cl.Close()
	for wi, send := range []func(m *stun.Message) error{
		func(m *stun.Message) error { return cl.Indicate(m) },
		func(m *stun.Message) error { return cl.Start(m, func(stun.Event) {}) },
		func(m *stun.Message) error { return cl.Do(m, nil) },
	} {
		m := new(stun.Message)
		m.TransactionID = [12]byte{0xC1, 0x90, byte(wi), byte(want >> 8), byte(want)}
		m.Type = t
		m.WriteHeader()
		m.Add(stun.AttrSoftware, []byte("c19"))
		before := len(conn.writes)
		if err := send(m); err != nil {
			return "harness", fmt.Sprintf("client call %d failed: %v", wi, err)
		}
		conn.mu.Lock()
		ws := conn.writes[before:]
		conn.mu.Unlock()
		if len(ws) != 1 || len(ws[0]) < 2 {
			return "client-wire-type", fmt.Sprintf("client call %d (0 Indicate, 1 Start, 2 Do(m,nil)) with a message of type %v wrote %d datagrams", wi, t, len(ws))
		}
		if w := uint16(ws[0][0])<<8 | uint16(ws[0][1]); w != want || m.Type != t || uint16(m.Raw[0])<<8|uint16(m.Raw[1]) != want {
			return "client-wire-type", fmt.Sprintf("client call %d (0 Indicate, 1 Start, 2 Do(m,nil)) with a message of type %v (%#04x): type word on the wire %#04x, m.Type afterwards %v, m.Raw[0:2] afterwards %#04x", wi, t, want, w, m.Type, uint16(m.Raw[0])<<8|uint16(m.Raw[1]))
		}
	}
	return "", ""
}

type c19Case struct {
	Kind   string `json:"kind"` // enc | dec | wire
	Method uint16 `json:"method"`
	Class  uint8  `json:"class"`
	V      uint16 `json:"v"`
	// Globals: run the case with the exported variables BindingRequest/BindingSuccess/BindingError reassigned
	Globals bool `json:"globals,omitempty"`
}

func c19Check(k c19Case) (key, detail string) {
	if p := catch(func() { key, detail = c19Check1(k) }); p != "" {
		return "panic", fmt.Sprintf("%s on %+v", p, k)
	}
	return
}

func c19Check1(k c19Case) (string, string) {
	if k.Globals {
		// the codec is a pure function of its argument: the exported, assignable package variables are not part of it
		r, s, e := stun.BindingRequest, stun.BindingSuccess, stun.BindingError
		stun.BindingRequest = stun.NewType(stun.Method(0xABC), stun.ClassIndication)
		stun.BindingSuccess = stun.NewType(stun.MethodAllocate, stun.ClassRequest)
		stun.BindingError = stun.NewType(stun.Method(0), stun.ClassSuccessResponse)
		defer func() { stun.BindingRequest, stun.BindingSuccess, stun.BindingError = r, s, e }()
		k.Globals = false
		key, d := c19Check1(k)
		if key != "" {
			return key + "/after-reassigning-exported-type-variables", d
		}
		return "", ""
	}
	switch k.Kind {
	case "noncanonical-first":
		// (self-contained: in a fresh process - a replay - it runs before anything else was encoded)
		for method := 0; method < 4096; method++ {
			for _, class := range []uint8{0x04, 0x0C, 0x13, 0x80, 0xFF} {
				t := stun.MessageType{Method: stun.Method(method), Class: stun.MessageClass(class)}
				var got uint16
				if p := catch(func() { got = t.Value() }); p != "" {
					continue // (a debug build may refuse such a value: not a wire type)
				}
				if want := refTypeEncode(uint16(method), class&3); got != want {
					return "enc-noncanonical-class", fmt.Sprintf("Value(method %#x, class byte %#x) = %#04x, want %#04x (the class has two bits)", method, class, got, want)
				}
			}
		}
		for method := 0; method < 4096; method++ {
			for class := 0; class < 4; class++ {
				if got, want := stun.NewType(stun.Method(method), stun.MessageClass(class)).Value(), refTypeEncode(uint16(method), uint8(class)); got != want {
					return "enc-layout/after-noncanonical-types", fmt.Sprintf("after types with a Class byte above 3 were encoded, Value(method=%#x,class=%d)=%#04x, RFC 5389 figure 3 gives %#04x", method, class, got, want)
				}
			}
		}
		return "", ""
	case "enc":
		t := stun.NewType(stun.Method(k.Method), stun.MessageClass(k.Class))
		got := t.Value()
		want := refTypeEncode(k.Method, k.Class)
		if got != want {
			return "enc-layout", fmt.Sprintf("Value(method=%#x,class=%d)=%#04x, RFC figure 3 gives %#04x", k.Method, k.Class, got, want)
		}
		if got&0xC000 != 0 {
			return "enc-leading-bits", fmt.Sprintf("Value(method=%#x,class=%d)=%#04x has leading bits", k.Method, k.Class, got)
		}
		var back stun.MessageType
		back.ReadValue(got)
		if back != t {
			return "enc-dec-identity", fmt.Sprintf("ReadValue(Value(%v)) = %v", t, back)
		}
		// through the wire: SetType writes the same two bytes
		m := new(stun.Message)
		m.WriteHeader()
		m.SetType(t)
		if w := uint16(m.Raw[0])<<8 | uint16(m.Raw[1]); w != want {
			return "enc-wire", fmt.Sprintf("SetType(%v) wrote %#04x want %#04x", t, w, want)
		}
		// the field already holds t while the bytes still hold another type (the caller assigned m.Type, or changed
		// m.Type.Class of a decoded request): SetType / AddTo must write the bytes all the same
		for _, prevWord := range []uint16{0x0001, 0x3FFF, ^want & 0x3FFF} {
			h := new(stun.Message)
			h.Type.ReadValue(prevWord)
			h.WriteHeader()
			h.Type = t
			h.SetType(t)
			if w := uint16(h.Raw[0])<<8 | uint16(h.Raw[1]); w != want {
				return "enc-wire-settype-stale", fmt.Sprintf("SetType(%v) on a Message whose Type field already is %v while its bytes say %#04x left %#04x, want %#04x", t, t, prevWord, w, want)
			}
			h2 := new(stun.Message)
			h2.Type.ReadValue(prevWord)
			h2.WriteHeader()
			h2.Type = t
			_ = t.AddTo(h2)
			if w := uint16(h2.Raw[0])<<8 | uint16(h2.Raw[1]); w != want {
				return "enc-wire-settype-stale", fmt.Sprintf("MessageType(%v).AddTo on a Message whose Type field already is %v while its bytes say %#04x left %#04x, want %#04x", t, t, prevWord, w, want)
			}
		}
		// the buffer held something else before: a datagram whose first two bits are set (decoded: the decoder ignores
		// them; or refused: RTP, DTLS, ChannelData land in the same read buffer), or stale 0xFF bytes in storage
		// that is merely re-exposed. Every way of writing the type writes all 16 bits.
		for _, top := range []uint16{0x4000, 0x8000, 0xC000} {
			hdr := make([]byte, 20)
			hdr[0], hdr[1] = byte((want^0x3FFF|top)>>8), byte(want^0x3FFF)
			hdr[4], hdr[5], hdr[6], hdr[7] = 0x21, 0x12, 0xA4, 0x42
			for wi, write := range []func(h *stun.Message){
				func(h *stun.Message) { h.SetType(t) },
				func(h *stun.Message) { h.Type = t; h.WriteHeader() },
				func(h *stun.Message) { h.Type = t; h.Encode() },
				func(h *stun.Message) { h.Type = t; h.WriteType() },
				func(h *stun.Message) { _ = t.AddTo(h) },
				func(h *stun.Message) { _ = h.Build(t) },
			} {
				h := new(stun.Message)
				_, _ = h.Write(hdr) // decodes (the two leading bits are not part of the type)
				write(h)
				if len(h.Raw) < 2 {
					return "enc-wire-stale-leading-bits", fmt.Sprintf("way %d of writing type %v left a %d-byte Raw", wi, t, len(h.Raw))
				}
				if w := uint16(h.Raw[0])<<8 | uint16(h.Raw[1]); w != want {
					return "enc-wire-stale-leading-bits", fmt.Sprintf("way %d of writing type %v (0 SetType, 1 WriteHeader, 2 Encode, 3 WriteType, 4 AddTo, 5 Build) into a Message that had decoded a header with type word %#04x left %#04x on the wire, want %#04x", wi, t, uint16(hdr[0])<<8|uint16(hdr[1]), w, want)
				}
				// storage that is re-exposed, not cleared: a Message whose Raw was cut to length 0 over 0xFF bytes
				g := &stun.Message{Raw: bytes.Repeat([]byte{0xFF}, 64)[:0]}
				write(g)
				if len(g.Raw) >= 2 {
					if w := uint16(g.Raw[0])<<8 | uint16(g.Raw[1]); w != want {
						return "enc-wire-stale-leading-bits", fmt.Sprintf("way %d of writing type %v into a Message whose empty Raw lies over 0xFF bytes left %#04x on the wire, want %#04x", wi, t, w, want)
					}
				}
			}
		}
		// ... and what the client puts on the wire for a message of this type is the message (Indicate, Start, Do)
		if key, d := c19ThroughClient(t, want); key != "" {
			return key, d
		}
		// WriteHeader renders the type into its two bytes whatever the other fields hold (Length is a uint32
		// that a reused Message may carry over from a larger payload)
		for _, ln := range []uint32{0, 8, 0xFFFC, 0x10000 | uint32(^want)<<16, 0xFFFF0000} {
			h := new(stun.Message)
			h.Type, h.Length = t, ln
			h.TransactionID = [12]byte{0xFF, 0xFF, 0xFF, 0xFF, 0xFF, 0xFF, 0xFF, 0xFF, 0xFF, 0xFF, 0xFF, 0xFF}
			h.WriteHeader()
			if w := uint16(h.Raw[0])<<8 | uint16(h.Raw[1]); w != want {
				return "enc-wire-writeheader", fmt.Sprintf("WriteHeader with Type %v and Length %#x wrote type word %#04x want %#04x", t, ln, w, want)
			}
		}
	case "dec":
		var t stun.MessageType
		t.ReadValue(k.V)
		wm, wc := refTypeDecode(k.V & 0x3FFF)
		if uint16(t.Method) != wm || uint8(t.Class) != wc {
			return "dec-layout", fmt.Sprintf("ReadValue(%#04x)=(method %#x,class %d), RFC figure 3 gives (%#x,%d)", k.V, uint16(t.Method), t.Class, wm, wc)
		}
		if t.Value() != k.V&0x3FFF {
			return "dec-enc-identity", fmt.Sprintf("Value(ReadValue(%#04x))=%#04x", k.V, t.Value())
		}
		// a reused receiver (Message.Decode reads into m.Type of a reused Message) must be overwritten completely
		for _, prev := range []uint16{^k.V, 0xFFFF, 0x0000, 0x2AAA, 0x1555} {
			var r stun.MessageType
			r.ReadValue(prev)
			r.ReadValue(k.V)
			if uint16(r.Method) != wm || uint8(r.Class) != wc {
				return "dec-stale-receiver", fmt.Sprintf("ReadValue(%#04x) into a MessageType that held ReadValue(%#04x) gives (method %#x,class %d), want (%#x,%d)", k.V, prev, uint16(r.Method), r.Class, wm, wc)
			}
		}
		// through the wire: Decode of a bare header with this type word
		raw := make([]byte, 20)
		raw[0], raw[1] = byte(k.V>>8), byte(k.V)
		raw[4], raw[5], raw[6], raw[7] = 0x21, 0x12, 0xA4, 0x42
		m := &stun.Message{Raw: raw}
		if err := m.Decode(); err != nil {
			return "dec-wire", fmt.Sprintf("Decode of header with type word %#04x failed: %v", k.V, err)
		}
		if uint16(m.Type.Method) != wm || uint8(m.Type.Class) != wc {
			return "dec-wire", fmt.Sprintf("Decode type word %#04x gave %v", k.V, m.Type)
		}
		// the type of a message is its type word whatever else the message carries, through every decoding entry point,
		// into a fresh Message and into one that was used before (for the same bytes, for a sibling with another type)
		bad := func(mm *stun.Message) bool { return uint16(mm.Type.Method) != wm || uint8(mm.Type.Class) != wc }
		for bi, body := range c19Bodies {
			data := make([]byte, 20+len(body))
			copy(data, raw)
			data[2], data[3] = byte(len(body)>>8), byte(len(body))
			copy(data[8:20], "c19-tid-0123")
			copy(data[20:], body)
			sibling := append([]byte(nil), data...)
			sibling[0], sibling[1] = byte(^k.V>>8)&0x3F, byte(^k.V)
			junk := stun.MessageType{Method: stun.Method(^wm & 0xFFF), Class: stun.MessageClass(^wc & 3)}
			for ei, entry := range []func(mm *stun.Message, d []byte) error{
				func(mm *stun.Message, d []byte) error { mm.Raw = append(mm.Raw[:0], d...); return mm.Decode() },
				func(mm *stun.Message, d []byte) error { return stun.Decode(d, mm) },
				func(mm *stun.Message, d []byte) error { _, err := mm.Write(d); return err },
				func(mm *stun.Message, d []byte) error { return mm.UnmarshalBinary(d) },
				func(mm *stun.Message, d []byte) error { _, err := mm.ReadFrom(bytes.NewReader(d)); return err },
			} {
				name := []string{"Message.Decode", "Decode(data,m)", "Message.Write", "UnmarshalBinary", "ReadFrom"}[ei]
				mm := new(stun.Message)
				if ei == 4 {
					mm.Raw = make([]byte, 0, 256)
				}
				if err := entry(mm, data); err != nil {
					return "dec-wire", fmt.Sprintf("%s of a message with type word %#04x and attributes #%d failed: %v", name, k.V, bi, err)
				}
				if bad(mm) {
					return "dec-wire-with-attributes", fmt.Sprintf("%s of a message with type word %#04x and attribute set #%d (%x) gave type %v, figure 3 gives (%#x,%d)", name, k.V, bi, clip(body), mm.Type, wm, wc)
				}
				// the same bytes again into the same Message, after the caller changed the Type field
				mm.Type = junk
				if err := entry(mm, data); err != nil || bad(mm) {
					return "dec-wire-reused-message", fmt.Sprintf("%s of the same bytes (type word %#04x, attribute set #%d) into the same Message, whose Type field the caller had set to %v in between: err=%v type=%v, want (%#x,%d)", name, k.V, bi, junk, err, mm.Type, wm, wc)
				}
				// a datagram cut short (refused), then the message: nothing of the refused one counts
				if len(data) > 20 {
					_ = entry(mm, sibling[:len(sibling)-4])
					if err := entry(mm, data); err != nil || bad(mm) {
						return "dec-wire-reused-message", fmt.Sprintf("%s of type word %#04x (attribute set #%d) into a Message that had just refused its sibling cut short by 4 bytes: err=%v type=%v, want (%#x,%d)", name, k.V, bi, err, mm.Type, wm, wc)
					}
				}
				// a sibling (other type word, everything else equal), then the message again
				if err := entry(mm, sibling); err != nil {
					return "dec-wire", fmt.Sprintf("%s of the sibling of %#04x failed: %v", name, k.V, err)
				}
				if err := entry(mm, data); err != nil || bad(mm) {
					return "dec-wire-reused-message", fmt.Sprintf("%s of type word %#04x (attribute set #%d) into a Message that held its sibling with type word %#04x: err=%v type=%v, want (%#x,%d)", name, k.V, bi, uint16(sibling[0])<<8|uint16(sibling[1]), err, mm.Type, wm, wc)
				}
			}
		}
	}
	return "", ""
}

func init() {
	registry["C19"] = propImpl{
		Run: func(c *Ctx) {
			var i int64
			// first of all (before this process has encoded any canonical type): types whose Class byte has bits above
			// the two that exist. Value ignores them; it must go on doing so without poisoning anything it keeps.
			if c.Shard == 0 {
				c.Eval(1)
				k := c19Case{Kind: "noncanonical-first"}
				if key, d := c19Check(k); key != "" {
					c.Violation(key, d, k)
				}
				c.Outcome("enc-noncanonical-class-first")
			}
			for method := 0; method < 4096; method++ {
				for class := 0; class < 4; class++ {
					i++
					if !c.Mine(i) {
						continue
					}
					k := c19Case{Kind: "enc", Method: uint16(method), Class: uint8(class)}
					c.Eval(1)
					c.Distinct(uint64(method)<<8 | uint64(class))
					c.Outcome(fmt.Sprintf("enc-class%d", class))
					if key, d := c19Check(k); key != "" {
						c.Violation(key, d, k)
					}
					if method == 0x123 && class == 2 {
						c.Sample(map[string]interface{}{"method": method, "class": class, "value": refTypeEncode(uint16(method), uint8(class))})
					}
				}
			}
			// the whole domain again with the exported type variables reassigned
			for method := 0; method < 4096; method++ {
				for class := 0; class < 4; class++ {
					i++
					if !c.Mine(i) {
						continue
					}
					c.Eval(1)
					c.Outcome("enc/globals-reassigned")
					k := c19Case{Kind: "enc", Method: uint16(method), Class: uint8(class), Globals: true}
					if key, d := c19Check(k); key != "" {
						c.Violation(key, d, k)
					}
				}
			}
			for v := 0; v < 65536; v++ {
				i++
				if !c.Mine(i) {
					continue
				}
				c.Eval(1)
				c.Outcome("dec/globals-reassigned")
				k := c19Case{Kind: "dec", V: uint16(v), Globals: true}
				if key, d := c19Check(k); key != "" {
					c.Violation(key, d, k)
				}
			}
			for v := 0; v < 65536; v++ {
				i++
				if !c.Mine(i) {
					continue
				}
				k := c19Case{Kind: "dec", V: uint16(v)}
				c.Eval(1)
				c.Distinct(1<<32 | uint64(v))
				c.Outcome(fmt.Sprintf("dec-top%d", v>>14))
				if key, d := c19Check(k); key != "" {
					c.Violation(key, d, k)
				}
				if v == 0x0111 {
					c.Sample(map[string]interface{}{"wire": v})
				}
			}
		},
		Replay: func(c *Ctx, p json.RawMessage) {
			var k c19Case
			if err := json.Unmarshal(p, &k); err != nil {
				c.Fail("%v", err)
			}
			if key, d := c19Check(k); key != "" {
				c.Violation(key, d, k)
			}
		},
	}
}
