package main

import (
	"encoding/json"
	"errors"
	"fmt"
	"time"

	stun "github.com/pion/stun/v3"

	"verif/mc/peek"
	"verif/ref"
)

// C13: Agent behaves as its transaction-table specification.

type agentOp struct {
	Kind string `json:"k"` // start stop stoperr process collect sethandler close
	ID   int    `json:"id,omitempty"`
	T    int    `json:"t,omitempty"`
	H    int    `json:"h,omitempty"`
}

func (o agentOp) String() string {
	switch o.Kind {
	case "start":
		return fmt.Sprintf("Start(%s,t%d)", agentIDName(o.ID), o.T)
	case "stop":
		return fmt.Sprintf("Stop(%s)", agentIDName(o.ID))
	case "stoperr":
		if o.H == 1 {
			return fmt.Sprintf("StopWithError(%s,nil)", agentIDName(o.ID))
		}
		return fmt.Sprintf("StopWithError(%s,custom)", agentIDName(o.ID))
	case "process":
		if o.H >= 4 {
			return fmt.Sprintf("Process(%s,%s FINGERPRINT)", agentIDName(o.ID), []string{"right", "wrong"}[o.H-4])
		}
		if o.H != 0 {
			return fmt.Sprintf("Process(%s,class %d)", agentIDName(o.ID), o.H)
		}
		return fmt.Sprintf("Process(%s)", agentIDName(o.ID))
	case "collect":
		return fmt.Sprintf("Collect(t%d)", o.T)
	case "sethandler":
		return fmt.Sprintf("SetHandler(h%d)", o.H)
	}
	return "Close()"
}

func agentIDName(i int) string {
	if i >= 4 {
		return fmt.Sprintf("X%d", i)
	}
	return string(rune('A' + i))
}

// c13IDVariant > 0 replaces ids B and C by ids that a table keyed on a digest of the 96-bit id would confuse
// with A: equal under an xor/sum fold of two of the three 32-bit words, a rotation of the words, the same bytes
// in another order.
var c13IDVariant int

func agentID(i int) (id [12]byte) {
	// ids that collide as hard as possible: differ in one bit of byte 0 / byte 11
	id = [12]byte{0x10, 1, 2, 3, 4, 5, 6, 7, 8, 9, 10, 0x20}
	if c13IDVariant > 0 && (i == 1 || i == 2) {
		d := [4]byte{0x80, 0x01, 0x00, 0x7F}
		xw := func(w int) {
			for j := 0; j < 4; j++ {
				id[4*w+j] ^= d[j]
			}
		}
		switch c13IDVariant*10 + i {
		case 11:
			xw(1)
			xw(2)
		case 12:
			xw(0)
			xw(2)
		case 21:
			xw(0)
			xw(1)
		case 22:
			id = [12]byte{8, 9, 10, 0x20, 0x10, 1, 2, 3, 4, 5, 6, 7}
		case 31:
			for l, r := 0, 11; l < r; l, r = l+1, r-1 {
				id[l], id[r] = id[r], id[l]
			}
		case 32:
			id[0], id[11] = id[11], id[0]
		}
		return id
	}
	switch i {
	case 1:
		id[0] ^= 0x01
	case 2:
		id[11] ^= 0x80
	case 3:
		id[5] ^= 0xff
	}
	if i >= 4 {
		id[6], id[7] = byte(i), byte(i>>8)
		id[8] = 0x77
	}
	return
}

var agentT0 = time.Date(2024, 1, 1, 0, 0, 0, 0, time.UTC)

// agentTime: 1..5 are one second apart; 0 is the zero time.Time, 6 the year 3000, 7 the year 1700 (outside the
// range a 64-bit nanosecond count can hold).
func agentTime(k int) time.Time {
	switch k {
	case 0:
		return time.Time{}
	case 6:
		return time.Date(3000, 1, 1, 0, 0, 0, 0, time.UTC)
	case 7:
		return time.Date(1700, 1, 1, 0, 0, 0, 0, time.UTC)
	}
	return agentT0.Add(time.Duration(k) * time.Second)
}

// agentTimeRank orders the time points for the reference model.
func agentTimeRank(k int) int64 {
	switch k {
	case 0:
		return -1000
	case 7:
		return -500
	case 6:
		return 1000
	}
	return int64(k)
}

var errCustomStop = errors.New("custom stop error")

func agentAlphabet() []agentOp {
	var ops []agentOp
	for id := 0; id < 3; id++ {
		for t := 1; t <= 4; t++ {
			ops = append(ops, agentOp{Kind: "start", ID: id, T: t})
		}
	}
	for id := 0; id < 3; id++ {
		ops = append(ops, agentOp{Kind: "stop", ID: id})
	}
	for id := 0; id < 3; id++ {
		ops = append(ops, agentOp{Kind: "stoperr", ID: id})
	}
	ops = append(ops, agentOp{Kind: "stoperr", ID: 0, H: 1}) // a nil error: the event carries what it was given
	for id := 0; id < 4; id++ {
		ops = append(ops, agentOp{Kind: "process", ID: id})
	}
	// the class of the processed message must not matter: indication, success and error responses
	ops = append(ops, agentOp{Kind: "process", ID: 0, H: 1}, agentOp{Kind: "process", ID: 1, H: 2}, agentOp{Kind: "process", ID: 2, H: 3})
	// nor what it carries: a message with a FINGERPRINT that is right (H 4) or wrong (H 5) is a message with that id
	ops = append(ops, agentOp{Kind: "process", ID: 1, H: 4}, agentOp{Kind: "process", ID: 0, H: 5})
	for t := 1; t <= 5; t++ {
		ops = append(ops, agentOp{Kind: "collect", T: t})
	}
	// extreme time points: a "never" deadline, the zero time, and collect times far outside the 1678..2262 range
	ops = append(ops, agentOp{Kind: "start", ID: 0, T: 6}, agentOp{Kind: "start", ID: 1, T: 0}, agentOp{Kind: "start", ID: 2, T: 7},
		agentOp{Kind: "collect", T: 6}, agentOp{Kind: "collect", T: 7}, agentOp{Kind: "collect", T: 0})
	// (sethandler with H 0 installs a nil Handler: like NewAgent(nil), events then go nowhere)
	ops = append(ops, agentOp{Kind: "sethandler", H: 1}, agentOp{Kind: "sethandler", H: 2}, agentOp{Kind: "sethandler", H: 0}, agentOp{Kind: "close"})
	return ops
}

// agentRun is a real Agent paired with the model.
type agentRun struct {
	a      *stun.Agent
	model  *ref.AgentModel
	events []ref.AgentEvent
	curMsg *stun.Message
	hs     [3]stun.Handler
	// re-entrancy: on the first non-closed event of a top-level call the handler issues one nested call
	reentry   int // 0 none, 1 Stop(same id), 2 Start(same id,t4), 3 Collect(t5), 4 Process(same id)
	depth     int
	nestedRet string
	panicked  bool
	nestedEv  []ref.AgentEvent
	nestedOn  *ref.AgentEvent
}

func retName(err error) string {
	switch {
	case err == nil:
		return ref.RetNil
	case errors.Is(err, stun.ErrAgentClosed):
		return ref.RetClosed
	case errors.Is(err, stun.ErrTransactionExists):
		return ref.RetExists
	case errors.Is(err, stun.ErrTransactionNotExists):
		return ref.RetNotExists
	}
	return "other:" + err.Error()
}

func idName(id [12]byte) string {
	for i := 0; i < 4; i++ {
		if id == agentID(i) {
			return agentIDName(i)
		}
	}
	if id[8] == 0x77 {
		if i := int(id[6]) | int(id[7])<<8; i >= 4 && id == agentID(i) {
			return agentIDName(i)
		}
	}
	return fmt.Sprintf("%x", id)
}

func (r *agentRun) handler(n int) stun.Handler {
	return func(e stun.Event) {
		ev := ref.AgentEvent{Handler: n, ID: idName(e.TransactionID)}
		switch {
		case e.Error == nil && e.Message != nil:
			ev.Kind = ref.EvMessage
			if e.Message == r.curMsg {
				ev.Arg = "the-message"
			} else {
				ev.Arg = "another-message"
			}
		case errors.Is(e.Error, stun.ErrTransactionTimeOut):
			ev.Kind = ref.EvTimeout
		case errors.Is(e.Error, stun.ErrAgentClosed):
			ev.Kind = ref.EvClosed
		case errors.Is(e.Error, stun.ErrTransactionStopped):
			ev.Kind, ev.Arg = ref.EvStopped, "ErrTransactionStopped"
		case errors.Is(e.Error, errCustomStop):
			ev.Kind, ev.Arg = ref.EvStopped, "custom"
		case e.Error == nil && e.Message == nil:
			ev.Kind, ev.Arg = ref.EvStopped, "nil"
		default:
			ev.Kind = fmt.Sprintf("unknown(%v)", e.Error)
		}
		if e.Error != nil && e.Message != nil {
			ev.Kind += "+message"
		}
		if r.depth > 0 {
			r.nestedEv = append(r.nestedEv, ev)
			return
		}
		r.events = append(r.events, ev)
		if r.reentry == 5 {
			// (not from Close events: Close runs its handlers under the agent's lock, by design; see C14)
			if ev.Kind != ref.EvClosed && len(r.events) == 1 {
				panic(errC13HandlerPanic)
			}
			return
		}
		if r.reentry != 0 && r.nestedOn == nil && ev.Kind != ref.EvClosed {
			evc := ev
			r.nestedOn = &evc
			r.depth++
			var err error
			switch r.reentry {
			case 1:
				err = r.a.Stop(e.TransactionID)
			case 2:
				err = r.a.Start(e.TransactionID, agentTime(4))
			case 3:
				err = r.a.Collect(agentTime(5))
			case 4:
				err = r.a.Process(&stun.Message{TransactionID: e.TransactionID})
			}
			r.nestedRet = retName(err)
			r.depth--
		}
	}
}

var errC13HandlerPanic = errors.New("c13: the handler panics")

// guard runs one agent call; a panic of the handler (reentry mode 5) that comes through the call is recovered here, the
// way a caller with a recover would.
func (r *agentRun) guard(f func()) {
	defer func() {
		if rec := recover(); rec != nil {
			if rec != errC13HandlerPanic {
				panic(rec)
			}
			r.panicked = true
		}
	}()
	f()
}

func newAgentRun() *agentRun {
	r := &agentRun{model: ref.NewAgentModel(1)}
	r.hs[1], r.hs[2] = r.handler(1), r.handler(2)
	r.a = stun.NewAgent(r.hs[1])
	return r
}

// apply executes op on the real agent and on the model and compares; it
// returns a description of the first disagreement.
func (r *agentRun) apply(op agentOp) (key, detail string) {
	r.events = r.events[:0]
	r.curMsg = nil
	r.nestedOn, r.nestedEv, r.nestedRet = nil, nil, ""
	r.panicked = false
	var err error
	var wantRet string
	var wantEv []ref.AgentEvent
	id := agentID(op.ID)
	name := agentIDName(op.ID)
	switch op.Kind {
	case "start":
		r.guard(func() { err = r.a.Start(id, agentTime(op.T)) })
		wantRet = r.model.Start(name, agentTimeRank(op.T))
	case "stop":
		r.guard(func() { err = r.a.Stop(id) })
		wantRet, wantEv = r.model.Stop(name, "ErrTransactionStopped")
	case "stoperr":
		if op.H == 1 {
			r.guard(func() { err = r.a.StopWithError(id, nil) })
			wantRet, wantEv = r.model.Stop(name, "nil")
		} else {
			r.guard(func() { err = r.a.StopWithError(id, errCustomStop) })
			wantRet, wantEv = r.model.Stop(name, "custom")
		}
	case "process":
		r.curMsg = &stun.Message{TransactionID: id, Type: stun.NewType(stun.MethodBinding, stun.MessageClass(op.H&3))}
		if op.H >= 4 {
			b := stun.MustBuild(stun.BindingSuccess, stun.NewTransactionIDSetter(id), stun.NewSoftware("c13"), stun.Fingerprint)
			raw := append([]byte(nil), b.Raw...)
			if op.H == 5 {
				raw[len(raw)-1] ^= 0x01
			}
			r.curMsg = new(stun.Message)
			if _, werr := r.curMsg.Write(raw); werr != nil {
				panic("c13: fingerprinted message does not decode: " + werr.Error())
			}
		}
		r.guard(func() { err = r.a.Process(r.curMsg) })
		wantRet, wantEv = r.model.Process(name, "the-message")
	case "collect":
		r.guard(func() { err = r.a.Collect(agentTime(op.T)) })
		wantRet, wantEv = r.model.Collect(agentTimeRank(op.T))
	case "sethandler":
		r.guard(func() { err = r.a.SetHandler(r.hs[op.H]) })
		wantRet = r.model.SetHandler(op.H)
	case "close":
		r.guard(func() { err = r.a.Close() })
		wantRet, wantEv = r.model.Close()
	}
	if r.panicked {
		// the handler panicked at the first event of this call and the panic went through the call (the caller recovered
		// it): the call had taken effect before it ran the handler, as always; what it would have reported after that
		// event is lost with it. One event was seen, and it is one of those the specification lists.
		ok := len(r.events) == 1
		if ok {
			ok = false
			for _, e := range wantEv {
				if e == r.events[0] {
					ok = true
				}
			}
		}
		if !ok {
			return "events/" + op.Kind, fmt.Sprintf("%v, whose handler panicked at its first event, emitted %v; specification says the first of %v", op, r.events, wantEv)
		}
		return "", ""
	}
	if got := retName(err); got != wantRet {
		return "return/" + op.Kind, fmt.Sprintf("%v returned %s, specification says %s", op, got, wantRet)
	}
	got := append([]ref.AgentEvent(nil), r.events...)
	ref.SortEvents(got)
	// events addressed to the nil handler are not observable
	var seenBySomebody []ref.AgentEvent
	for _, e := range wantEv {
		if e.Handler != 0 {
			seenBySomebody = append(seenBySomebody, e)
		}
	}
	wantEv = seenBySomebody
	if len(got) != len(wantEv) {
		return "events/" + op.Kind, fmt.Sprintf("%v emitted %v, specification says %v", op, got, wantEv)
	}
	for i := range got {
		if got[i] != wantEv[i] {
			return "events/" + op.Kind, fmt.Sprintf("%v emitted %v, specification says %v", op, got, wantEv)
		}
	}
	// the nested call made by the handler: the outer call has taken effect before its handler runs
	if r.nestedOn != nil {
		var nret string
		var nev []ref.AgentEvent
		id := r.nestedOn.ID
		switch r.reentry {
		case 1:
			nret, nev = r.model.Stop(id, "ErrTransactionStopped")
		case 2:
			nret = r.model.Start(id, agentTimeRank(4))
		case 3:
			nret, nev = r.model.Collect(agentTimeRank(5))
		case 4:
			nret, nev = r.model.Process(id, "another-message")
		}
		gotN := append([]ref.AgentEvent(nil), r.nestedEv...)
		ref.SortEvents(gotN)
		same := nret == r.nestedRet && len(gotN) == len(nev)
		if same {
			for i := range gotN {
				if gotN[i] != nev[i] {
					same = false
				}
			}
		}
		if !same {
			return "reentrant/" + op.Kind, fmt.Sprintf("%v: the handler (on %v) called back with mode %d and got %s %v, specification says %s %v", op, *r.nestedOn, r.reentry, r.nestedRet, gotN, nret, nev)
		}
	}
	return "", ""
}

func c13RunSeq(ops []agentOp) (r *agentRun, key, detail string) { return c13RunSeqMode(ops, 0) }

func c13RunSeqMode(ops []agentOp, reentry int) (r *agentRun, key, detail string) {
	r = newAgentRun()
	r.reentry = reentry
	p := catch(func() {
		for i, op := range ops {
			if k, d := r.apply(op); k != "" {
				key, detail = k, fmt.Sprintf("after %v: %s", ops[:i], d)
				return
			}
		}
	})
	if p != "" {
		return r, "panic", fmt.Sprintf("%s in %v", p, ops)
	}
	return
}

// c13Nested: ko transactions expire at the outer Collect, kn more at a Collect issued from the handler of the
// first outer event; every one of them must get exactly one timeout and nothing else.
func c13Nested(ko, kn int) (key, detail string) {
	p := catch(func() {
		counts := map[[12]byte]int{}
		var a *stun.Agent
		nested := false
		a = stun.NewAgent(func(e stun.Event) {
			if errors.Is(e.Error, stun.ErrTransactionTimeOut) {
				counts[e.TransactionID]++
			}
			if !nested {
				nested = true
				_ = a.Collect(agentTime(5))
			}
		})
		for i := 0; i < ko; i++ {
			_ = a.Start(agentID(10+i), agentTime(1))
		}
		for i := 0; i < kn; i++ {
			_ = a.Start(agentID(100+i), agentTime(4))
		}
		if err := a.Collect(agentTime(2)); err != nil {
			key, detail = "nested-collect/return", err.Error()
			return
		}
		if ko == 0 {
			_ = a.Collect(agentTime(5))
		}
		for i := 0; i < ko; i++ {
			if counts[agentID(10+i)] != 1 {
				key, detail = "nested-collect/events", fmt.Sprintf("outer Collect with %d expired ids, Collect from the first handler with %d more: outer id %d got %d timeout events, want 1 (all counts: %d ids)", ko, kn, i, counts[agentID(10+i)], len(counts))
				return
			}
		}
		for i := 0; i < kn; i++ {
			if counts[agentID(100+i)] != 1 {
				key, detail = "nested-collect/events", fmt.Sprintf("outer Collect with %d expired ids, nested Collect with %d: nested id %d got %d timeout events, want 1", ko, kn, i, counts[agentID(100+i)])
				return
			}
		}
	})
	if p != "" {
		return "panic", p
	}
	return
}

// c13Many registers n transactions, k of them with a deadline strictly before the collect time, and checks
// that one Collect times out exactly those k and Close closes exactly the rest.
// c13ManyReentrant: n transactions, k of them expired at Collect(t3); the handler of the FIRST timeout event calls
// back into the agent (mode 1: Start of a new id with an expired deadline; 2: Stop of another expired id; 3: Close;
// 4: Process of another expired id). The table the Collect acts on is the one at its call: every expired id gets
// exactly one timeout, nothing started from the handler is collected by this call or lost afterwards.
func c13ManyReentrant(n, k, mode int) (key, detail string) {
	p := catch(func() {
		timeouts := map[[12]byte]int{}
		closed := map[[12]byte]int{}
		stopped := map[[12]byte]int{}
		msgs := map[[12]byte]int{}
		var a *stun.Agent
		id := func(i int) (t [12]byte) { t[0], t[1], t[2], t[11] = byte(i), byte(i>>8), byte(i>>16), 0x5a; return }
		newID := [12]byte{0xAA, 0xBB, 0xCC}
		first := true
		nested := "not-called"
		var firstID [12]byte
		a = stun.NewAgent(func(e stun.Event) {
			switch {
			case errors.Is(e.Error, stun.ErrTransactionTimeOut):
				timeouts[e.TransactionID]++
				if first {
					first = false
					firstID = e.TransactionID
					// modes 2 and 4 address EVERY other expired id (the agent's map iteration order, which decides whose
					// handler runs first, is the runtime's: the outcome must not depend on it)
					switch mode {
					case 1:
						nested = retName(a.Start(newID, agentTime(2)))
					case 2:
						nested = ref.RetNotExists
						for i := 0; i < k; i++ {
							if id(i) != firstID {
								if r := retName(a.Stop(id(i))); r != ref.RetNotExists {
									nested = r
								}
							}
						}
					case 3:
						nested = retName(a.Close())
					case 4:
						nested = ref.RetNil
						for i := 0; i < k; i++ {
							if id(i) != firstID {
								if r := retName(a.Process(&stun.Message{TransactionID: id(i)})); r != ref.RetNil {
									nested = r
								}
							}
						}
					}
				}
			case errors.Is(e.Error, stun.ErrAgentClosed):
				closed[e.TransactionID]++
			case errors.Is(e.Error, stun.ErrTransactionStopped):
				stopped[e.TransactionID]++
			case e.Error == nil && e.Message != nil:
				msgs[e.TransactionID]++
			}
		})
		for i := 0; i < n; i++ {
			d := agentTime(3)
			if i < k {
				d = agentTime(2)
			}
			if err := a.Start(id(i), d); err != nil {
				key, detail = "many-reentrant/start", err.Error()
				return
			}
		}
		cerr := a.Collect(agentTime(3))
		fail := func(f string, args ...interface{}) {
			if key == "" {
				key, detail = "many-reentrant/mode"+fmt.Sprint(mode), fmt.Sprintf("%d transactions, %d expired, handler of the first timeout calls back (mode %d, nested call returned %s): ", n, k, mode, nested)+fmt.Sprintf(f, args...)
			}
		}
		if k == 0 {
			return
		}
		for i := 0; i < n; i++ {
			want := 0
			if i < k {
				want = 1
			}
			if timeouts[id(i)] != want {
				fail("transaction %d got %d timeout events, want %d (%d ids timed out in total, Collect returned %v)", i, timeouts[id(i)], want, len(timeouts), cerr)
				return
			}
		}
		if timeouts[newID] != 0 {
			fail("the transaction started from the handler was timed out by the Collect that was already running")
		}
		switch mode {
		case 1:
			if nested != ref.RetNil {
				fail("Start from the handler returned %s", nested)
			}
			if err := a.Stop(newID); err != nil || stopped[newID] != 1 {
				fail("the transaction started from the handler is gone: Stop = %v, stopped events %d", err, stopped[newID])
			}
		case 2:
			if k >= 2 && nested != ref.RetNotExists {
				fail("Stop of an id that this Collect had already unregistered returned %s", nested)
			}
			if len(stopped) != 0 && k >= 2 {
				fail("%d stopped events", len(stopped))
			}
		case 3:
			if nested != ref.RetNil {
				fail("Close from the handler returned %s", nested)
			}
			for i := k; i < n; i++ {
				if closed[id(i)] != 1 {
					fail("transaction %d (not expired) got %d closed events from the nested Close, want 1", i, closed[id(i)])
					return
				}
			}
			for i := 0; i < k; i++ {
				if closed[id(i)] != 0 {
					fail("expired transaction %d got a closed event as well as its timeout", i)
					return
				}
			}
			if err := a.Start(newID, agentTime(4)); !errors.Is(err, stun.ErrAgentClosed) {
				fail("Start after the nested Close returned %v", err)
			}
		case 4:
			if k >= 2 && (nested != ref.RetNil || len(msgs) != k-1) {
				fail("Process of the %d other (already unregistered) expired ids from the handler returned %s with %d message events (Process always emits)", k-1, nested, len(msgs))
			}
		}
		if mode != 3 {
			if err := a.Close(); err != nil {
				fail("Close returned %v", err)
			}
			for i := k; i < n; i++ {
				if closed[id(i)] != 1 {
					fail("transaction %d (not expired) got %d closed events at Close", i, closed[id(i)])
					return
				}
			}
		}
	})
	if p != "" {
		return "panic", p
	}
	return
}

func c13Many(n, k int) (key, detail string) {
	p := catch(func() {
		timeouts := map[[12]byte]int{}
		closed := map[[12]byte]int{}
		other := 0
		a := stun.NewAgent(func(e stun.Event) {
			switch {
			case errors.Is(e.Error, stun.ErrTransactionTimeOut):
				timeouts[e.TransactionID]++
			case errors.Is(e.Error, stun.ErrAgentClosed):
				closed[e.TransactionID]++
			default:
				other++
			}
		})
		id := func(i int) (t [12]byte) { t[0], t[1], t[2], t[11] = byte(i), byte(i>>8), byte(i>>16), 0x5a; return }
		for i := 0; i < n; i++ {
			d := agentTime(3) // not before the collect time (== is not before)
			if i < k {
				d = agentTime(2)
			}
			if err := a.Start(id(i), d); err != nil {
				key, detail = "many/start", fmt.Sprintf("Start #%d of %d: %v", i, n, err)
				return
			}
		}
		// registering emits nothing and un-registers nothing, however many there are and wherever their deadlines lie
		// relative to any clock the agent was never given
		if len(timeouts)+len(closed)+other != 0 {
			key, detail = "many/start-emits-events", fmt.Sprintf("after %d Start calls and nothing else the handler has seen %d timeout, %d closed and %d other events", n, len(timeouts), len(closed), other)
			return
		}
		if n > 0 {
			for _, i := range []int{0, n / 2, n - 1} {
				if err := a.Start(id(i), agentTime(4)); !errors.Is(err, stun.ErrTransactionExists) {
					key, detail = "many/start", fmt.Sprintf("%d transactions registered; Start of #%d again = %v, want ErrTransactionExists", n, i, err)
					return
				}
			}
		}
		if err := a.Collect(agentTime(3)); err != nil {
			key, detail = "many/collect-return", err.Error()
			return
		}
		for i := 0; i < n; i++ {
			want := 0
			if i < k {
				want = 1
			}
			if timeouts[id(i)] != want {
				key, detail = "many/collect-events", fmt.Sprintf("%d transactions, %d with a deadline before t: Collect(t) emitted %d timeout events in total; transaction %d got %d, want %d", n, k, len(timeouts), i, timeouts[id(i)], want)
				return
			}
		}
		if err := a.Close(); err != nil {
			key, detail = "many/close-return", err.Error()
			return
		}
		for i := 0; i < n; i++ {
			want := 1
			if i < k {
				want = 0
			}
			if closed[id(i)] != want {
				key, detail = "many/close-events", fmt.Sprintf("%d transactions, %d timed out: Close emitted %d closed events for transaction %d, want %d", n, k, closed[id(i)], i, want)
				return
			}
		}
		if other != 0 {
			key, detail = "many/other-events", fmt.Sprintf("%d unexpected events", other)
		}
	})
	if p != "" {
		return "panic", p
	}
	return
}

func init() {
	registry["C13"] = propImpl{
		Run: func(c *Ctx) {
			alpha := agentAlphabet()
			// 1. explicit-state search to a fixed point, deduplicated by (model state, full dump of the real agent)
			if c.Shard == 0 {
				seen := map[string]bool{}
				modelStates := map[string]bool{}
				frontier := [][]agentOp{{}}
				r0, _, _ := c13RunSeq(nil)
				seen[r0.model.Key()+"|"+peek.Dump(r0.a)] = true
				modelStates[r0.model.Key()] = true
				maxDepth := 0
				for len(frontier) > 0 {
					hist := frontier[0]
					frontier = frontier[1:]
					for _, op := range alpha {
						seq := append(append([]agentOp(nil), hist...), op)
						r, key, detail := c13RunSeq(seq)
						c.Res.Transitions++
						c.Res.Traces++
						if key != "" {
							c.Violation(key, detail, seq)
							continue
						}
						k := r.model.Key() + "|" + peek.Dump(r.a)
						if !seen[k] {
							seen[k] = true
							modelStates[r.model.Key()] = true
							frontier = append(frontier, seq)
							if len(seq) > maxDepth {
								maxDepth = len(seq)
							}
							if len(seen)%97 == 0 {
								c.Sample(fmt.Sprint(seq))
							}
						}
					}
				}
				c.Res.States = int64(len(seen))
				c.Extra("abstract_states", float64(len(modelStates)))
				c.Extra("max_bfs_depth", float64(maxDepth))
				c.Extra("fixed_point_reached", true)
				c.Outcome(fmt.Sprintf("bfs-states=%d", len(seen)))
			}
			// 2. non-deduplicated enumeration of every sequence to depth d (a wrong merge cannot hide a shallow bug)
			depth := 4
			if c.Thorough() {
				depth = 5
			}
			seq := make([]agentOp, depth)
			var item int64
			var rec func(pos int)
			rec = func(pos int) {
				if pos == depth {
					c.Eval(1)
					c.DistinctByConstruction++
					c.Res.Traces++
					r, key, detail := c13RunSeq(seq)
					if key != "" {
						c.Violation(key, detail, append([]agentOp(nil), seq...))
						return
					}
					c.Outcome("end:" + fmt.Sprint(len(r.model.Deadline)) + "/closed=" + fmt.Sprint(r.model.Closed))
					return
				}
				for _, op := range alpha {
					seq[pos] = op
					if pos == 1 {
						item++
						if !c.Mine(item) {
							continue
						}
					}
					if c.Expired() {
						c.Res.Exhaustive = false
						return
					}
					rec(pos + 1)
				}
			}
			rec(0)
			// 2b. the same with handlers that call back into the agent (one nested call on the first event of each call)
			rdepth := 3
			if c.Thorough() {
				rdepth = 4
			}
			rseq := make([]agentOp, rdepth)
			var ritem int64
			var rrec func(pos int)
			rrec = func(pos int) {
				if pos == rdepth {
					for mode := 1; mode <= 5; mode++ { // (5: the handler panics at the first event of each call, the caller recovers)
						c.Eval(1)
						c.DistinctByConstruction++
						c.Res.Traces++
						seq := rseq
						if mode == 5 {
							// what a call whose handler panicked left behind shows at the latest when the agent is closed
							seq = append(append([]agentOp(nil), rseq...), agentOp{Kind: "close"})
						}
						if _, key, detail := c13RunSeqMode(seq, mode); key != "" {
							c.Violation(key, detail, map[string]interface{}{"reentry": mode, "ops": append([]agentOp(nil), seq...)})
							return
						}
					}
					c.Outcome("reentrant-histories")
					return
				}
				for _, op := range alpha {
					rseq[pos] = op
					if pos == 1 {
						ritem++
						if !c.Mine(ritem) {
							continue
						}
					}
					rrec(pos + 1)
				}
			}
			rrec(0)
			// 2c. every sequence one level shallower with ids B and C replaced by ids that a digest of A would collide with
			vdepth := depth - 1
			for v := 1; v <= 3; v++ {
				c13IDVariant = v
				vseq := make([]agentOp, vdepth)
				var vitem int64
				var vrec func(pos int)
				vrec = func(pos int) {
					if pos == vdepth {
						c.Eval(1)
						c.DistinctByConstruction++
						c.Res.Traces++
						if _, key, detail := c13RunSeq(vseq); key != "" {
							c.Violation(key, detail, map[string]interface{}{"idvariant": v, "ops": append([]agentOp(nil), vseq...)})
							return
						}
						c.Outcome("confusable-ids")
						return
					}
					for _, op := range alpha {
						vseq[pos] = op
						if pos == 1 {
							vitem++
							if !c.Mine(vitem) {
								continue
							}
						}
						vrec(pos + 1)
					}
				}
				vrec(0)
			}
			c13IDVariant = 0
			// 3. many ids at one Collect: n = 0..300 transactions, all / half / none of them expired
			manyN := []int{}
			for n := 0; n <= 300; n++ {
				manyN = append(manyN, n)
			}
			manyN = append(manyN, 1023, 1024, 1025, 1100, 2047, 2048, 2049, 3000) // tables a map would be resized / rebuilt at
			manyN = append(manyN, 4095, 4096, 4097, 16383, 16384, 16385, 32768, 32769, 65535, 65536, 65537, 100000)
			for _, n := range manyN {
				if !c.Mine(int64(n)) {
					continue
				}
				for _, k := range []int{n, n / 2, 0, 1, 3 * n / 4, n - 1} {
					if k > n {
						continue
					}
					c.Eval(1)
					c.DistinctByConstruction++
					c.Res.Traces++
					if key, d := c13Many(n, k); key != "" {
						c.Violation(key, d, map[string]int{"many_n": n, "many_k": k})
					} else {
						c.Outcome("many-ids")
					}
				}
			}
			// 3b. many ids at one Collect whose first handler calls back into the agent
			var mr int64
			for _, n := range []int{1, 2, 3, 50, 99, 100, 101, 102, 150, 200, 201, 250, 1023, 1024, 1025, 1100} {
				for _, k := range []int{n, n / 2, 1, 2} {
					for mode := 1; mode <= 5; mode++ { // (5: the handler panics at the first event of each call, the caller recovers)
						mr++
						if k > n || k == 0 || ((mode == 2 || mode == 4) && k < 2) || !c.Mine(mr) {
							continue // (modes 2 and 4 address another EXPIRED id: they need two)
						}
						c.Eval(1)
						c.DistinctByConstruction++
						c.Res.Traces++
						if key, d := c13ManyReentrant(n, k, mode); key != "" {
							c.Violation(key, d, map[string]int{"mr_n": n, "mr_k": k, "mr_mode": mode})
						} else {
							c.Outcome("many-ids-reentrant")
						}
					}
				}
			}
			// 4. Collect from inside a timeout handler, both collecting several ids
			if c.Shard == 0 {
				for ko := 0; ko <= 4; ko++ {
					for kn := 0; kn <= 4; kn++ {
						c.Eval(1)
						c.DistinctByConstruction++
						if key, d := c13Nested(ko, kn); key != "" {
							c.Violation(key, d, map[string]int{"nested_ko": ko, "nested_kn": kn})
						} else {
							c.Outcome("nested-collect")
						}
					}
				}
			}
			c.Extra("enumeration_depth", float64(depth))
			c.Extra("alphabet_size", float64(len(alpha)))
			if len(c.Res.Samples) == 0 {
				c.Sample(fmt.Sprint(seq))
			}
		},
		Replay: func(c *Ctx, p json.RawMessage) {
			var nest struct {
				Ko *int `json:"nested_ko"`
				Kn int  `json:"nested_kn"`
			}
			if json.Unmarshal(p, &nest) == nil && nest.Ko != nil {
				if key, d := c13Nested(*nest.Ko, nest.Kn); key != "" {
					c.Violation(key, d, map[string]int{"nested_ko": *nest.Ko, "nested_kn": nest.Kn})
				}
				return
			}
			var mre struct {
				N    *int `json:"mr_n"`
				K    int  `json:"mr_k"`
				Mode int  `json:"mr_mode"`
			}
			if json.Unmarshal(p, &mre) == nil && mre.N != nil {
				if key, d := c13ManyReentrant(*mre.N, mre.K, mre.Mode); key != "" {
					c.Violation(key, d, map[string]int{"mr_n": *mre.N, "mr_k": mre.K, "mr_mode": mre.Mode})
				}
				return
			}
			var many struct {
				N *int `json:"many_n"`
				K int  `json:"many_k"`
			}
			if json.Unmarshal(p, &many) == nil && many.N != nil {
				if key, d := c13Many(*many.N, many.K); key != "" {
					c.Violation(key, d, map[string]int{"many_n": *many.N, "many_k": many.K})
				}
				return
			}
			var iv struct {
				V   int       `json:"idvariant"`
				Ops []agentOp `json:"ops"`
			}
			if json.Unmarshal(p, &iv) == nil && iv.V != 0 {
				c13IDVariant = iv.V
				if _, key, detail := c13RunSeq(iv.Ops); key != "" {
					c.Violation(key, detail, map[string]interface{}{"idvariant": iv.V, "ops": iv.Ops})
				}
				c13IDVariant = 0
				return
			}
			var re struct {
				Reentry int       `json:"reentry"`
				Ops     []agentOp `json:"ops"`
			}
			if json.Unmarshal(p, &re) == nil && re.Reentry != 0 {
				if _, key, detail := c13RunSeqMode(re.Ops, re.Reentry); key != "" {
					c.Violation(key, detail, map[string]interface{}{"reentry": re.Reentry, "ops": re.Ops})
				}
				return
			}
			var ops []agentOp
			if err := json.Unmarshal(p, &ops); err != nil {
				c.Fail("%v", err)
			}
			if _, key, detail := c13RunSeq(ops); key != "" {
				c.Violation(key, detail, ops)
			}
		},
	}
}
