package main

import (
	"bytes"
	"io"
	"net"
	"sync"
	"time"

	stun "github.com/pion/stun/v3"
	"github.com/pion/stun/v3/zzverif/hmacx"
)

// History independence. The library is built around pooled and reused scratch state; every property of the
// sequential API is stated per call, so what a check observes for one case must not depend on which OTHER library
// calls the process made before. In the plain and debug builds every noisePeriod-th case of a shard is therefore
// preceded by one of noiseKinds unrelated activities that leave every pool, scratch buffer and cache the library
// may keep as dirty as the public API allows (0xFF-heavy maximal values). The oracles are absolute (reference
// encoders, parsers, models), so contamination shows as an ordinary violation of the property under check; the
// violation's replay payload records the activity, and a replay performs it first.

const (
	noisePeriod = 64
	noiseKinds  = 13
)

var noiseFF = bytes.Repeat([]byte{0xFF}, 763)

func noiseOn(c *Ctx) bool {
	if c.Build != "plain" && c.Build != "debug" {
		return false
	}
	switch c.Prop {
	case "C16", "C20": // C16 parses in child processes; C20 measures allocations of a warmed-up state it sets up itself
		return false
	}
	return true
}

// runNoise performs activity k. It never fails the run: a panic in here is some other property's business.
func runNoise(k int) {
	_ = catch(func() { noise(k) })
}

func noise(k int) {
	tid := stun.NewTransactionIDSetter([12]byte{0xFF, 0xFF, 0xFF, 0xFF, 0xFF, 0xFF, 0xFF, 0xFF, 0xFF, 0xFF, 0xFF, 0xFF})
	m := new(stun.Message)
	switch k {
	case 0: // variable-length encoders
		l := make(stun.UnknownAttributes, 20)
		for i := range l {
			l[i] = stun.AttrType(0xFFFF - i)
		}
		_ = m.Build(stun.BindingError, tid, l, stun.ErrorCodeAttribute{Code: 699, Reason: noiseFF})
		var g stun.UnknownAttributes
		_ = g.GetFrom(m)
		var e stun.ErrorCodeAttribute
		_ = e.GetFrom(m)
	case 1: // text attributes at their limits
		_ = m.Build(stun.BindingRequest, tid, stun.Username(noiseFF[:513]), stun.Realm(noiseFF), stun.Nonce(noiseFF), stun.Software(noiseFF))
		var u stun.Username
		_ = u.GetFrom(m)
		var t stun.TextAttribute
		_ = t.GetFromAs(m, stun.AttrRealm)
		t = t[:0]
		_ = t.GetFromAs(m, stun.AttrSoftware)
	case 2: // addresses, both families
		ip6 := net.IP(noiseFF[:16])
		_ = m.Build(stun.BindingSuccess, tid, &stun.XORMappedAddress{IP: ip6, Port: 0xFFFF}, &stun.MappedAddress{IP: ip6, Port: 0xFFFF},
			&stun.AlternateServer{IP: net.IPv4(255, 255, 255, 255), Port: 0xFFFF}, &stun.OtherAddress{IP: ip6, Port: 1}, &stun.ResponseOrigin{IP: ip6, Port: 2})
		var x stun.XORMappedAddress
		_ = x.GetFrom(m)
		var a stun.MappedAddress
		_ = a.GetFrom(m)
	case 3: // integrity and fingerprint, long key
		key := stun.MessageIntegrity(noiseFF[:200])
		_ = m.Build(stun.BindingRequest, tid, stun.Username(noiseFF[:100]), key, stun.Fingerprint)
		_ = key.Check(m)
		_ = stun.MessageIntegrity("wrong").Check(m)
		_ = stun.Fingerprint.Check(m)
		_ = stun.NewLongTermIntegrity("user", "realm", "pass").AddTo(new(stun.Message))
	case 4: // decoding a large message through every entry point, cloning
		_ = m.Build(stun.BindingSuccess, tid, stun.Software(noiseFF), stun.Realm(noiseFF), stun.Nonce(noiseFF), stun.Fingerprint)
		d := new(stun.Message)
		_, _ = d.Write(m.Raw)
		_ = stun.Decode(m.Raw, d)
		_ = d.UnmarshalBinary(m.Raw)
		_, _ = d.ReadFrom(bytes.NewReader(m.Raw))
		_ = m.CloneTo(d)
		_ = d.Equal(m)
	case 5: // URIs
		for _, s := range []string{"stun:EXAMPLE.org:3478", "turns:[2001:DB8::1]:443?transport=tcp", "turn:h?transport=udp", "stun:[fe80::1%25eth0]", "stuns:x:0", "turn:bad:99999", "http:x"} {
			if u, err := stun.ParseURI(s); err == nil {
				_ = u.String()
				u.Host, u.Port, u.Username = "noise.invalid", 1, "noise"
			}
		}
	case 6: // building, resetting, re-encoding
		_ = m.Build(stun.BindingRequest, tid, stun.Software(noiseFF[:41]))
		m.Reset()
		m.Type = stun.NewType(stun.Method(0xFFF), stun.ClassErrorResponse)
		m.Length = 0xFFFF
		m.WriteHeader()
		m.Add(stun.AttrType(0xFFFF), noiseFF[:5])
		m.Encode()
		m.WriteLength()
		_, _ = m.WriteTo(new(bytes.Buffer))
	case 7: // the HMAC pools
		h := hmacx.AcquireSHA1(noiseFF[:300])
		_, _ = h.Write(noiseFF)
		_ = h.Sum(nil)
		hmacx.PutSHA1(h)
		h2 := hmacx.AcquireSHA256(noiseFF[:65])
		_, _ = h2.Write(noiseFF[:65])
		_ = h2.Sum(nil)
		h2.Reset()
		hmacx.PutSHA256(h2)
	case 8: // an agent
		a := stun.NewAgent(func(stun.Event) {})
		t0 := time.Unix(0, 0)
		_ = a.Start([12]byte{0xFF}, t0.Add(time.Second))
		_ = a.Start([12]byte{0xFE}, t0.Add(2*time.Second))
		_ = a.Process(&stun.Message{TransactionID: [12]byte{0xFF}})
		_ = a.Collect(t0.Add(time.Hour))
		_ = a.Close()
	case 9: // lookups and a failing ForEach
		_ = m.Build(stun.BindingRequest, tid, stun.Username("a"), stun.Username("b"), stun.Realm("r"))
		_, _ = m.Get(stun.AttrUsername)
		_ = m.Contains(stun.AttrNonce)
		n := 0
		_ = m.ForEach(stun.AttrUsername, func(*stun.Message) error {
			n++
			if n == 2 {
				return errC02Stop
			}
			return nil
		})
	case 10: // error codes, raw attributes
		_ = m.Build(stun.BindingError, tid, stun.CodeStaleNonce, stun.RawAttribute{Type: 0x7FFF, Value: noiseFF[:7]})
		_ = stun.ErrorCode(12345).AddTo(m)
		_ = m.String()
	case 12: // a client: a 96-byte request that is re-transmitted twice and never answered, then Close
		conn := &noiseConn{closed: make(chan struct{})}
		clk := &noiseClock{t: time.Unix(1000, 0)}
		col := &noiseCollector{}
		cl, err := stun.NewClient(conn, stun.WithClock(clk), stun.WithCollector(col), stun.WithRTO(time.Second))
		if err != nil {
			return
		}
		req := stun.MustBuild(stun.BindingRequest, tid, stun.Username(noiseFF[:72]))
		_ = cl.Start(req, func(stun.Event) {})
		for i := 0; i < 2 && col.f != nil; i++ {
			clk.t = clk.t.Add(time.Minute)
			col.f(clk.t)
		}
		_ = cl.Close()
	case 11: // an undecodable and a truncated message into a used Message
		_ = m.Build(stun.BindingRequest, tid, stun.Software(noiseFF[:100]))
		bad := append([]byte(nil), m.Raw...)
		bad[3] ^= 0x40
		_, _ = m.Write(bad)
		_, _ = m.Write(bad[:21])
		_, _ = m.Write(nil)
	}
}

type noiseConn struct {
	closed chan struct{}
	once   sync.Once
}

func (c *noiseConn) Read(p []byte) (int, error)  { <-c.closed; return 0, io.EOF }
func (c *noiseConn) Write(p []byte) (int, error) { return len(p), nil }
func (c *noiseConn) Close() error                { c.once.Do(func() { close(c.closed) }); return nil }

type noiseClock struct{ t time.Time }

func (c *noiseClock) Now() time.Time { return c.t }

type noiseCollector struct{ f func(time.Time) }

func (c *noiseCollector) Start(rate time.Duration, f func(now time.Time)) error { c.f = f; return nil }
func (c *noiseCollector) Close() error                                          { return nil }
