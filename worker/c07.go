package main

import (
	"encoding/hex"
	"encoding/json"
	"fmt"
	"unsafe"

	stun "github.com/pion/stun/v3"

	"verif/ref"
)

// C07: attribute getters and checkers are total, local and side-effect free.

type c07Getter struct {
	Name string
	Attr uint16
	Call func(m *stun.Message) string // outcome: error text + returned value
}

var c07Key = []byte("c07-integrity-key")

func addrOut(ip []byte, port int, err error) string {
	if err != nil {
		return "err:" + err.Error()
	}
	return fmt.Sprintf("ok:%x:%d", ip, port)
}

func bytesOut(b []byte, err error) string {
	if err != nil {
		return "err:" + err.Error()
	}
	return fmt.Sprintf("ok:%x", b)
}

var c07Getters = []c07Getter{
	{"XORMappedAddress.GetFrom", 0x0020, func(m *stun.Message) string {
		var a stun.XORMappedAddress
		err := a.GetFrom(m)
		return addrOut(a.IP, a.Port, err)
	}},
	{"XORMappedAddress.GetFromAs(XOR-PEER-ADDRESS)", 0x0012, func(m *stun.Message) string {
		var a stun.XORMappedAddress
		err := a.GetFromAs(m, stun.AttrXORPeerAddress)
		return addrOut(a.IP, a.Port, err)
	}},
	{"MappedAddress.GetFrom", 0x0001, func(m *stun.Message) string {
		var a stun.MappedAddress
		err := a.GetFrom(m)
		return addrOut(a.IP, a.Port, err)
	}},
	{"AlternateServer.GetFrom", 0x8023, func(m *stun.Message) string {
		var a stun.AlternateServer
		err := a.GetFrom(m)
		return addrOut(a.IP, a.Port, err)
	}},
	{"ResponseOrigin.GetFrom", 0x802b, func(m *stun.Message) string {
		var a stun.ResponseOrigin
		err := a.GetFrom(m)
		return addrOut(a.IP, a.Port, err)
	}},
	{"OtherAddress.GetFrom", 0x802c, func(m *stun.Message) string {
		var a stun.OtherAddress
		err := a.GetFrom(m)
		return addrOut(a.IP, a.Port, err)
	}},
	{"ErrorCodeAttribute.GetFrom", 0x0009, func(m *stun.Message) string {
		var a stun.ErrorCodeAttribute
		err := a.GetFrom(m)
		if err != nil {
			return "err:" + err.Error()
		}
		return fmt.Sprintf("ok:%d:%x", a.Code, a.Reason)
	}},
	{"UnknownAttributes.GetFrom", 0x000A, func(m *stun.Message) string {
		var a stun.UnknownAttributes
		err := a.GetFrom(m)
		if err != nil {
			return "err:" + err.Error()
		}
		return fmt.Sprintf("ok:%v", []stun.AttrType(a))
	}},
	{"Username.GetFrom", 0x0006, func(m *stun.Message) string { var a stun.Username; err := a.GetFrom(m); return bytesOut(a, err) }},
	{"Realm.GetFrom", 0x0014, func(m *stun.Message) string { var a stun.Realm; err := a.GetFrom(m); return bytesOut(a, err) }},
	{"Nonce.GetFrom", 0x0015, func(m *stun.Message) string { var a stun.Nonce; err := a.GetFrom(m); return bytesOut(a, err) }},
	{"Software.GetFrom", 0x8022, func(m *stun.Message) string { var a stun.Software; err := a.GetFrom(m); return bytesOut(a, err) }},
	{"Fingerprint.Check", 0x8028, func(m *stun.Message) string {
		if err := stun.Fingerprint.Check(m); err != nil {
			return "err:" + c07ErrClass(err)
		}
		return "ok"
	}},
	{"MessageIntegrity.Check", 0x0008, func(m *stun.Message) string {
		if err := stun.MessageIntegrity(c07Key).Check(m); err != nil {
			return "err:" + c07ErrClass(err)
		}
		return "ok"
	}},
}

// errClass drops the byte dumps the debug build embeds in mismatch errors
// (they are a function of value and covered span anyway, but long).
func c07ErrClass(err error) string {
	s := err.Error()
	if len(s) > 60 {
		s = s[:60]
	}
	return s
}

type c07Part struct {
	Type  uint16
	Value []byte
}

// c07Build lays out header + parts with padding bytes and spare capacity set
// to filler, in an exact allocation of len+slack bytes.
// c07TypeHi is OR-ed into the first header byte: the two leading type bits are tolerated by Decode and
// must survive every getter/checker untouched.
var c07TypeHi byte

// c07Trail bytes of the allocation behind the message (as the header describes it) are INSIDE len(Raw):
// the rest of a datagram, the next frame of a stream buffer. Decode accepts that; they are not part of the message.
var c07Trail int

// c07Post is applied to the decoded Message before the call: 1 clips the capacity of Raw to its length
// (m.Raw = m.Raw[:n:n]), 2 is a snapshot (struct copy with Raw copied to a new exact allocation; the attribute
// values still view the original buffer, which holds the same bytes). Both leave every visible byte, Length and
// the attribute list as they were.
var c07Post int

// c07Sloppy lays the message out the way some RFC 3489-era peers do: the last attribute without its padding, the
// header counting only the bytes that are there. The decoder refuses such bytes today; the variant exists for a
// library that accepts them (c07Message returns nil otherwise and the variant is skipped).
var c07Sloppy bool

func c07Build(parts []c07Part, tid [12]byte, slack int, filler func(i int) byte) []byte {
	n := 20
	for _, p := range parts {
		n += 4 + pad4(len(p.Value))
	}
	back := make([]byte, n+slack)
	for i := range back {
		back[i] = filler(i)
	}
	back[0], back[1] = 0x01|c07TypeHi, 0x01
	back[2], back[3] = byte((n-20)>>8), byte(n-20)
	back[4], back[5], back[6], back[7] = 0x21, 0x12, 0xA4, 0x42
	copy(back[8:20], tid[:])
	off := 20
	for _, p := range parts {
		back[off], back[off+1] = byte(p.Type>>8), byte(p.Type)
		back[off+2], back[off+3] = byte(len(p.Value)>>8), byte(len(p.Value))
		copy(back[off+4:], p.Value)
		off += 4 + pad4(len(p.Value))
	}
	return back[: n : n+slack]
}

var c07Fillers = []func(i int) byte{
	func(int) byte { return 0x00 },
	func(int) byte { return 0xFF },
	func(i int) byte { return byte(i & 1) }, // 00 01 repeating: looks like an address family
	nil,                                     // seed filler, set in Run
}

var c07Slacks = []int{0, 1, 2, 3, 4, 8, 64}

// c07SlackTrail: the slacks, then variants with trailing bytes inside len(Raw): (slack, trail) = (1,1) (12,4) (20,20) (32,24)
var c07SlackTrail = append(append([]int{}, c07Slacks...), 1, 12, 20, 32)

// c07Reused: the same call with a destination value that was used before (on a full-length value of the
// other family, then of the same family) must give the outcome of a fresh destination.
func c07Reused(gi, l, class int) (key, detail string) {
	g := c07Getters[gi]
	var call func(m *stun.Message, fresh bool) string
	full4 := []byte{0, 1, 0x30, 0x39, 9, 8, 7, 6}
	full6 := []byte{0, 2, 0x30, 0x39, 1, 2, 3, 4, 5, 6, 7, 8, 9, 10, 11, 12, 13, 14, 15, 16}
	type primedMsg struct {
		m    *stun.Message
		snap msgSnap
	}
	var primed []primedMsg
	vals := [][]byte{full6, full4, full6}
	switch g.Attr {
	case 0x0009:
		vals = [][]byte{append([]byte{0, 0, 4, 1}, "a rather long reason phrase, 40 bytes..."...), {0, 0, 3, 0}, append([]byte{0, 0, 6, 99}, "mid"...)}
	case 0x000A:
		vals = [][]byte{{0x80, 1, 0x80, 2, 0x80, 3, 0x80, 4, 0x80, 5, 0x80, 6, 0x80, 7, 0x80, 8}, {0, 1}, {0x80, 1, 0x80, 2}}
	case 0x0006, 0x0014, 0x0015, 0x8022:
		vals = [][]byte{[]byte("a text value of thirty-two bytes."), {}, []byte("five!")}
	}
	prime := func(get func(m *stun.Message) error) {
		for _, v := range vals {
			pm := &stun.Message{Raw: c07Build([]c07Part{{Type: g.Attr, Value: v}, {Type: 0x7F02, Value: []byte("the neighbour after it")}}, c07TID, 8, func(int) byte { return 0 })}
			if pm.Decode() == nil {
				_ = get(pm)
				primed = append(primed, primedMsg{pm, snapMsg(pm)})
			}
		}
	}
	switch g.Attr {
	case 0x0020, 0x0012:
		call = func(m *stun.Message, fresh bool) string {
			var a stun.XORMappedAddress
			if !fresh {
				prime(func(pm *stun.Message) error { return a.GetFromAs(pm, stun.AttrType(g.Attr)) })
			}
			err := a.GetFromAs(m, stun.AttrType(g.Attr))
			return addrOut(a.IP, a.Port, err)
		}
	case 0x0001:
		call = func(m *stun.Message, fresh bool) string {
			var a stun.MappedAddress
			if !fresh {
				prime(a.GetFrom)
			}
			err := a.GetFrom(m)
			return addrOut(a.IP, a.Port, err)
		}
	case 0x8023:
		call = func(m *stun.Message, fresh bool) string {
			var a stun.AlternateServer
			if !fresh {
				prime(a.GetFrom)
			}
			err := a.GetFrom(m)
			return addrOut(a.IP, a.Port, err)
		}
	case 0x802b:
		call = func(m *stun.Message, fresh bool) string {
			var a stun.ResponseOrigin
			if !fresh {
				prime(a.GetFrom)
			}
			err := a.GetFrom(m)
			return addrOut(a.IP, a.Port, err)
		}
	case 0x802c:
		call = func(m *stun.Message, fresh bool) string {
			var a stun.OtherAddress
			if !fresh {
				prime(a.GetFrom)
			}
			err := a.GetFrom(m)
			return addrOut(a.IP, a.Port, err)
		}
	case 0x0009:
		call = func(m *stun.Message, fresh bool) string {
			var a stun.ErrorCodeAttribute
			if !fresh {
				prime(a.GetFrom)
			}
			if err := a.GetFrom(m); err != nil {
				return "err:" + err.Error()
			}
			return fmt.Sprintf("ok:%d:%x", a.Code, a.Reason)
		}
	case 0x000A:
		call = func(m *stun.Message, fresh bool) string {
			var a stun.UnknownAttributes
			if !fresh {
				prime(a.GetFrom)
			}
			if err := a.GetFrom(m); err != nil {
				return "err:" + err.Error()
			}
			return fmt.Sprintf("ok:%v", []stun.AttrType(a))
		}
	case 0x0006, 0x0014, 0x0015, 0x8022:
		call = func(m *stun.Message, fresh bool) string {
			var a stun.TextAttribute
			if !fresh {
				prime(func(pm *stun.Message) error { return a.GetFromAs(pm, stun.AttrType(g.Attr)) })
				if l%2 == 1 {
					a = a[:0] // the documented reset-and-reuse pattern
				}
			}
			err := a.GetFromAs(m, stun.AttrType(g.Attr))
			return bytesOut(a, err)
		}
	case 0x0008:
		// the integrity check with a key that lives in a caller buffer which held another key of the same length a
		// moment ago (and was used for a check of another message then)
		call = func(m *stun.Message, fresh bool) string {
			key := append([]byte(nil), c07Key...)
			if !fresh {
				for i := range key {
					key[i] ^= 0x5A
				}
				other := stun.MustBuild(stun.BindingRequest, stun.NewTransactionIDSetter(c07TID), stun.NewUsername("someone else"), stun.MessageIntegrity(key))
				_ = stun.MessageIntegrity(key).Check(other)
				copy(key, c07Key) // the caller's buffer now holds the key of this message
			}
			if err := stun.MessageIntegrity(key).Check(m); err != nil {
				return "err:" + c07ErrClass(err)
			}
			return "ok"
		}
	default:
		return "", ""
	}
	var o1, o2 string
	var d2 string
	if p := catch(func() {
		o1 = call(c07Message(gi, l, class, 0, 4, 0), true)
		m2 := c07Message(gi, l, class, 0, 4, 0)
		s2 := snapMsg(m2)
		o2 = call(m2, false)
		d2 = s2.diff(m2)
	}); p != "" {
		return "panic/" + g.Name, p
	}
	if d2 != "" {
		return "side-effect/" + g.Name, fmt.Sprintf("%s into a destination used before, on a %d-byte value: %s", g.Name, l, d2)
	}
	for i, pm := range primed {
		if d := pm.snap.diff(pm.m); d != "" {
			return "writes-into-earlier-message/" + g.Name, fmt.Sprintf("%s with one destination over several messages: message %d, read earlier, was changed by a later read (%s)", g.Name, i+1, d)
		}
	}
	if o1 != o2 {
		return "depends-on-destination-history/" + g.Name, fmt.Sprintf("%s on a %d-byte value (class %d): fresh destination gives %q, a destination used before gives %q", g.Name, l, class, clipS(o1), clipS(o2))
	}
	return "", ""
}

// c07InsideForEach: a message carries the getter's attribute twice, with different values, behind a neighbour. After
// a lookup on the whole message (Get), the getter is applied from inside ForEach: visit i must give exactly what the
// getter gives on a message that carries only value i.
func c07InsideForEach(gi, l, class int) (key, detail string) {
	g := c07Getters[gi]
	if g.Attr == 0x0008 || g.Attr == 0x8028 {
		// the checkers cover a span, not one attribute: from inside a callback (on any attribute type, the first or a
		// later match) they give what they give outside, for a right and a wrong MAC / CRC
		if l != 0 {
			return "", ""
		}
		b := stun.MustBuild(stun.BindingRequest, stun.NewTransactionIDSetter(c07TID), stun.RawAttribute{Type: 0x7F01, Value: []byte{1, 2, 3}},
			stun.NewUsername("first"), stun.NewSoftware("between"), stun.NewUsername("second"), stun.MessageIntegrity(c07Key), stun.Fingerprint)
		raw := append([]byte(nil), b.Raw...)
		if class&1 == 1 {
			raw[len(raw)-1] ^= 1 // wrong CRC
		}
		if class&2 == 2 {
			raw[len(raw)-8-1] ^= 1 // wrong MAC
		}
		m := &stun.Message{Raw: exactSlice(raw, 4)}
		if m.Decode() != nil {
			return "harness", "checker message does not decode"
		}
		var outside string
		var inside []string
		if p := catch(func() {
			outside = g.Call(m)
			for _, t := range []stun.AttrType{stun.AttrUsername, stun.AttrSoftware, stun.AttrMessageIntegrity, stun.AttrFingerprint, 0x7F01} {
				if t == stun.AttrFingerprint && g.Attr == 0x0008 {
					continue // (a callback sees the attributes from its match on, by design: MESSAGE-INTEGRITY lies before that one)
				}
				_ = m.ForEach(t, func(mm *stun.Message) error {
					inside = append(inside, g.Call(mm))
					return nil
				})
			}
			inside = append(inside, g.Call(m))
		}); p != "" {
			return "panic/" + g.Name, p
		}
		for i, o := range inside {
			if o != outside {
				return "inside-foreach/" + g.Name, fmt.Sprintf("%s gives %q on the message and %q at visit %d of ForEach callbacks over USERNAME (2), SOFTWARE, MESSAGE-INTEGRITY, FINGERPRINT, the first attribute, and once more outside (variant %d: bit 0 wrong CRC, bit 1 wrong MAC)", g.Name, outside, o, i, class)
			}
		}
		return "", ""
	}
	v1 := c07Value(g, l, class, nil)
	v2 := c07Value(g, (l+5)%41, (class+1)%4, nil)
	single := func(v []byte) string {
		m := &stun.Message{Raw: c07Build([]c07Part{{Type: 0x7F01, Value: []byte{1, 2, 3}}, {Type: g.Attr, Value: v}}, c07TID, 4, func(int) byte { return 0 })}
		if m.Decode() != nil {
			return "undecodable"
		}
		return g.Call(m)
	}
	var want, got []string
	if p := catch(func() {
		v3 := c07Value(g, (l+11)%41, (class+2)%4, nil)
		want = []string{single(v1), single(v2), single(v3), single(v1)}
		// (three of them in a row behind a neighbour, and one more behind another neighbour)
		m := &stun.Message{Raw: c07Build([]c07Part{{Type: 0x7F01, Value: []byte{1, 2, 3}}, {Type: g.Attr, Value: v1}, {Type: g.Attr, Value: v2}, {Type: g.Attr, Value: v3},
			{Type: 0x7F02, Value: []byte{9}}, {Type: g.Attr, Value: v1}}, c07TID, 4, func(int) byte { return 0 })}
		if m.Decode() != nil {
			got = []string{"undecodable"}
			return
		}
		_, _ = m.Get(stun.AttrType(g.Attr)) // a lookup on the whole message first
		_ = g.Call(m)
		_ = m.ForEach(stun.AttrType(g.Attr), func(mm *stun.Message) error {
			got = append(got, g.Call(mm))
			return nil
		})
	}); p != "" {
		return "panic/" + g.Name, p
	}
	if fmt.Sprint(got) != fmt.Sprint(want) {
		return "inside-foreach/" + g.Name, fmt.Sprintf("%s applied from inside ForEach to a message that carries the attribute four times (first values of %d and %d bytes): %q, applied to messages carrying one of them: %q", g.Name, len(v1), len(v2), got, want)
	}
	return "", ""
}

// c07FieldTID: the XOR getters take the transaction id from the Message (the field the caller sees and may assign).
// Two messages with the same value bytes: one decoded from bytes that carry id B; the other decoded from bytes that
// carry id A whose TransactionID field the caller then set to B. Same value, same id => same outcome.
func c07FieldTID(gi, l, class int) (key, detail string) {
	g := c07Getters[gi]
	if g.Attr != 0x0020 && g.Attr != 0x0012 {
		return "", ""
	}
	val := c07Value(g, l, class, nil)
	idB := [12]byte{0xB0, 0xB1, 0xB2, 0xB3, 0xB4, 0xB5, 0xB6, 0xB7, 0xB8, 0xB9, 0xBA, 0xBB}
	parts := []c07Part{{Type: g.Attr, Value: val}}
	zero := func(int) byte { return 0 }
	var o1, o2 string
	if p := catch(func() {
		m1 := &stun.Message{Raw: c07Build(parts, c07TID, 4, zero)}
		m2 := &stun.Message{Raw: c07Build(parts, idB, 4, zero)}
		if m1.Decode() != nil || m2.Decode() != nil {
			o1, o2 = "undecodable", "undecodable"
			return
		}
		m1.TransactionID = idB
		o1, o2 = g.Call(m1), g.Call(m2)
	}); p != "" {
		return "panic/" + g.Name, p
	}
	if o1 != o2 {
		return "non-local/" + g.Name, fmt.Sprintf("%s on a %d-byte value gives %q on a message whose TransactionID field the caller set to %x (its bytes carry %x) and %q on a message decoded with that id", g.Name, l, clipS(o1), idB, c07TID, clipS(o2))
	}
	return "", ""
}

type c07Case struct {
	Getter  int   `json:"getter"`
	Len     int   `json:"len"`
	Class   int   `json:"class"`
	Pos     int   `json:"pos"` // 0 only, 1 first, 2 middle, 3 last
	Slack   int   `json:"slack"`
	Filler  int   `json:"filler"`
	Pos2    int   `json:"pos2"` // twin compared against (position, slack, filler)
	Slack2  int   `json:"slack2"`
	Filler2 int   `json:"filler2"`
	Seed    int64 `json:"seed"`
	Trail   int   `json:"trail,omitempty"`
	Post    int   `json:"post,omitempty"`
	Sloppy  bool  `json:"sloppy,omitempty"`
}

var c07TID = [12]byte{0x5a, 0x01, 0xfe, 0x33, 0x80, 0x7f, 0x11, 0x22, 0xc3, 0xd4, 0xe5, 0xf6}

var c07Prefixes = [][]byte{{0x00, 0x01}, {0x00, 0x02}, {0x00, 0x03}, {0x01, 0x01}, {0, 0, 4, 1}, {0, 0, 4, 38}, {0, 0, 3, 0}, {0, 0, 5, 0}}

// c07Value builds the attribute value for (getter, length, class).
func c07Value(g c07Getter, l, class int, before []c07Part) []byte {
	v := make([]byte, l)
	for i := range v {
		v[i] = byte(i*7 + 3)
	}
	// classes 0-3: the address-family byte and its neighbours; classes 4-7: values that MEAN something to a getter with
	// a table behind it (the error codes 401, 438, 300 and 500 have default reason phrases), so that a getter which
	// treats known values differently is run on them at every length, position and capacity
	prefix := c07Prefixes[class]
	copy(v, prefix)
	if class == 0 {
		switch {
		case g.Attr == 0x0008 && l == 20:
			// a correct MAC over the covered span (header length rewritten to end at this attribute)
			span := c07Build(before, c07TID, 0, func(int) byte { return 0 })
			ln := len(span) - 20 + 24
			span[2], span[3] = byte(ln>>8), byte(ln)
			copy(v, ref.HMACSHA1(c07Key, span))
		case g.Attr == 0x0008 && l > 20 && l <= 24:
			// the checker assumes a 20-byte MAC: for a 21..24-byte value its span ends after this attribute's header.
			// A value that starts with exactly that HMAC must still be rejected (wrong size), without panicking.
			span := c07Build(before, c07TID, 0, func(int) byte { return 0 })
			span = append(span, 0x00, 0x08, 0x00, byte(l))
			ln := len(span) - 20 + 24
			span[2], span[3] = byte(ln>>8), byte(ln)
			copy(v, ref.HMACSHA1(c07Key, span))
		case g.Attr == 0x8028 && l == 4:
			span := c07Build(before, c07TID, 0, func(int) byte { return 0 })
			ln := len(span) - 20 + 8
			span[2], span[3] = byte(ln>>8), byte(ln)
			f := ref.Fingerprint(span)
			v[0], v[1], v[2], v[3] = byte(f>>24), byte(f>>16), byte(f>>8), byte(f)
		}
	}
	return v
}

// c07Message builds the message for one variant.
func c07Message(gi, l, class, pos, slack, filler int) *stun.Message {
	g := c07Getters[gi]
	nb := c07Part{Type: 0x7F01, Value: []byte{1, 2, 3, 4, 5}} // neighbour, unaligned so it has padding
	var before, after []c07Part
	switch g.Attr {
	case 0x0008: // integrity: covered span must be the same for all twins => fixed prefix, vary what follows
		before = []c07Part{{Type: 0x0006, Value: []byte("abc")}}
		for i := 0; i < pos; i++ {
			after = append(after, nb)
		}
	case 0x8028: // fingerprint: everything before the last 8 bytes is covered => fixed prefix, attribute last
		before = []c07Part{{Type: 0x0006, Value: []byte("abc")}}
		// pos > 0: attributes BEHIND the fingerprint (a relay that appends; section 15.5 says to ignore them or not, the
		// checker may say what it likes, but it must say it without touching the message)
		for i := 0; i < pos; i++ {
			after = append(after, nb)
		}
	default:
		switch pos {
		case 1:
			after = []c07Part{nb}
		case 2:
			before, after = []c07Part{nb}, []c07Part{nb}
		case 3:
			before = []c07Part{nb}
		}
	}
	fill := c07Fillers[filler]
	if g.Attr == 0x0008 || g.Attr == 0x8028 {
		// the covered prefix is laid out with zero padding in every twin; only bytes after it vary
		prefixLen := len(c07Build(before, c07TID, 0, fill))
		inner := fill
		fill = func(i int) byte {
			if i < prefixLen {
				return 0
			}
			return inner(i)
		}
	}
	val := c07Value(g, l, class, before)
	parts := append(append(append([]c07Part{}, before...), c07Part{Type: g.Attr, Value: val}), after...)
	raw := c07Build(parts, c07TID, max(slack, c07Trail), fill)
	raw = raw[:len(raw)+c07Trail]
	if c07Sloppy {
		last := parts[len(parts)-1]
		cut := pad4(len(last.Value)) - len(last.Value)
		if cut == 0 {
			return nil
		}
		raw = raw[: len(raw)-cut : cap(raw)]
		raw[2], raw[3] = byte((len(raw)-20)>>8), byte(len(raw)-20)
		m := &stun.Message{Raw: raw}
		if m.Decode() != nil {
			return nil
		}
		return m
	}
	m := &stun.Message{Raw: raw}
	if err := m.Decode(); err != nil {
		panic("c07: generated message does not decode: " + err.Error())
	}
	switch c07Post {
	case 1:
		m.Raw = m.Raw[:len(m.Raw):len(m.Raw)]
	case 2:
		snap := *m
		snap.Raw = append(make([]byte, 0, len(m.Raw)), m.Raw...)
		return &snap
	}
	return m
}

type msgSnap struct {
	raw    []byte
	rawPtr *byte
	rawLen int
	length uint32
	aPtr   *stun.RawAttribute
	aLen   int
	attrs  []stun.RawAttribute
	typ    stun.MessageType
	tid    [12]byte
}

func snapMsg(m *stun.Message) msgSnap {
	return msgSnap{raw: append([]byte(nil), m.Raw...), rawPtr: unsafe.SliceData(m.Raw), rawLen: len(m.Raw), length: m.Length,
		aPtr: unsafe.SliceData(m.Attributes), aLen: len(m.Attributes), attrs: append([]stun.RawAttribute(nil), m.Attributes...), typ: m.Type, tid: m.TransactionID}
}

func (s msgSnap) diff(m *stun.Message) string {
	switch {
	case len(m.Raw) != s.rawLen || unsafe.SliceData(m.Raw) != s.rawPtr:
		return fmt.Sprintf("Raw slice changed (len %d -> %d)", s.rawLen, len(m.Raw))
	case string(m.Raw) != string(s.raw):
		return fmt.Sprintf("Raw bytes changed: %x -> %x", clip(s.raw), clip(m.Raw))
	case m.Length != s.length:
		return fmt.Sprintf("Length changed %d -> %d", s.length, m.Length)
	case len(m.Attributes) != s.aLen || unsafe.SliceData(m.Attributes) != s.aPtr:
		return fmt.Sprintf("Attributes slice changed (len %d -> %d)", s.aLen, len(m.Attributes))
	case m.Type != s.typ || m.TransactionID != s.tid:
		return "Type/TransactionID changed"
	}
	for i, a := range m.Attributes {
		b := s.attrs[i]
		if a.Type != b.Type || a.Length != b.Length || len(a.Value) != len(b.Value) || unsafe.SliceData(a.Value) != unsafe.SliceData(b.Value) {
			return fmt.Sprintf("attribute %d changed", i)
		}
	}
	return ""
}

// c07Eval runs one variant and returns its outcome.
func c07Eval(gi, l, class, pos, slack, filler int) (out, key, detail string) {
	g := c07Getters[gi]
	m := c07Message(gi, l, class, pos, slack, filler)
	if m == nil {
		return "skipped", "", ""
	}
	snap := snapMsg(m)
	if p := catch(func() { out = g.Call(m) }); p != "" {
		return "", "panic/" + g.Name, fmt.Sprintf("%s %s; %d-byte value, position %d, capacity len+%d; message %x", g.Name, p, l, pos, slack, clip(m.Raw))
	}
	if d := snap.diff(m); d != "" {
		return "", "side-effect/" + g.Name, fmt.Sprintf("%s (outcome %s) on a %d-byte value: %s", g.Name, clipS(out), l, d)
	}
	return out, "", ""
}

func clipS(s string) string {
	if len(s) > 80 {
		return s[:80] + "..."
	}
	return s
}

func init() {
	registry["C07"] = propImpl{
		Run: func(c *Ctx) {
			c07Fillers[3] = func(i int) byte { return byte(int64(i)*131 + c.Seed*89 + 0x3c) }
			var fam int64
			maxPos := 4
			maxL := 40
			if c.Thorough() {
				maxL = 200
				c07SlackTrail = append(append(append([]int{}, c07Slacks...), 5, 6, 7, 16, 20, 24, 128), 1, 12, 20, 32)
				c07Slacks = c07SlackTrail[:len(c07Slacks)+7]
			}
			for gi, g := range c07Getters {
				for l := 0; l <= maxL; l++ {
					for class := 0; class < len(c07Prefixes); class++ {
						fam++
						if !c.Mine(fam) {
							continue
						}
						if key, detail := c07Reused(gi, l, class); key != "" {
							c.Violation(key, detail, c07Case{Getter: gi, Len: l, Class: class, Pos: -7, Pos2: -1, Seed: c.Seed})
						}
						// the same message as a sloppy peer would send it (skipped unless the library decodes it)
						for pos := 0; pos < 3; pos++ {
							c07Sloppy = true
							c.Eval(1)
							o2, k2, d2 := c07Eval(gi, l, class, pos, 4, 1)
							c07Sloppy = false
							kk := c07Case{Getter: gi, Len: l, Class: class, Pos: pos, Slack: 4, Filler: 1, Pos2: pos, Slack2: 4, Filler2: 1, Seed: c.Seed, Sloppy: true}
							if k2 != "" {
								c.Violation(k2, d2, kk)
							} else if o2 != "skipped" {
								if o1, k1, _ := c07Eval(gi, l, class, pos, 4, 1); k1 == "" && o1 != o2 {
									c.Violation("non-local/"+g.Name, fmt.Sprintf("%s gives %q on a message whose last attribute lacks its padding (the header saying so) and %q on the same message padded", g.Name, clipS(o2), clipS(o1)), kk)
								}
							}
						}
						c.Eval(1)
						if key, detail := c07InsideForEach(gi, l, class); key != "" {
							c.Violation(key, detail, c07Case{Getter: gi, Len: l, Class: class, Pos: -8, Pos2: -1, Seed: c.Seed})
						}
						if key, detail := c07FieldTID(gi, l, class); key != "" {
							c.Violation(key, detail, c07Case{Getter: gi, Len: l, Class: class, Pos: -9, Pos2: -1, Seed: c.Seed})
						}
						first := ""
						var f0 [3]int
						have := false
						np := maxPos
						if g.Attr == 0x8028 {
							np = 3
						}
						if g.Attr == 0x0008 {
							np = 3
						}
						for pos := 0; pos < np; pos++ {
							// leading type bits: part of the covered span of the checkers, so fixed per twin family
							c07TypeHi = []byte{0x00, 0xC0, 0x40, 0x80}[(l+class)%4]
							for si, slack := range c07SlackTrail {
								for filler := range c07Fillers {
									c07Trail = 0
									if si >= len(c07Slacks) {
										if filler == 0 {
											continue
										}
										c07Trail = slack - (si-len(c07Slacks))%2*8
									}
									// the message as decoded, and (for the capacities with room to lose) with its capacity
									// clipped / as a snapshot
									posts := []int{0}
									if c07Trail == 0 && (slack == 1 || slack == 8 || slack == 64) && filler >= 1 && filler <= 2 {
										posts = []int{0, 1, 2}
									}
									var out, key, detail string
									var k c07Case
									for _, post := range posts {
										c07Post = post
										c.Eval(1)
										c.DistinctByConstruction++
										o2, k2, d2 := c07Eval(gi, l, class, pos, slack, filler)
										c07Post = 0
										kk := c07Case{Getter: gi, Len: l, Class: class, Pos: pos, Slack: slack, Filler: filler, Pos2: -1, Seed: c.Seed, Trail: c07Trail, Post: post}
										if post == 0 {
											out, key, detail, k = o2, k2, d2, kk
											continue
										}
										if k2 != "" {
											c.Violation(k2, d2, kk)
										} else if key == "" && o2 != out {
											kk.Pos2, kk.Slack2, kk.Filler2 = pos, slack, filler
											c.Violation("non-local/"+g.Name, fmt.Sprintf("%s on the same message gives %q as decoded but %q after transformation %d (1 = capacity of Raw clipped to its length, 2 = snapshot with a copied Raw); %d-byte value, position %d, cap+%d", g.Name, clipS(out), clipS(o2), post, l, pos, slack), kk)
										}
									}
									c07Trail = 0
									if key != "" {
										c.Violation(key, detail, k)
										continue
									}
									if !have {
										first, f0, have = out, [3]int{pos, slack, filler}, true
										cls := "err"
										if len(out) >= 2 && out[:2] == "ok" {
											cls = "ok"
										}
										c.Outcome(g.Name + ":" + cls)
										if fam%97 == 3 {
											c.Sample(map[string]interface{}{"getter": g.Name, "value_len": l, "class": class, "outcome": clipS(out), "message_hex": hex.EncodeToString(c07Message(gi, l, class, pos, slack, filler).Raw)})
										}
									} else if out != first && !(g.Attr == 0x8028 && (k.Trail > 0 || k.Pos > 0 || f0[0] > 0)) {
										// (Fingerprint.Check covers Raw up to its last 8 bytes - C05 - so trailing bytes inside
										// len(Raw) change its covered span: only totality and side effects are checked for it there)
										k.Pos2, k.Slack2, k.Filler2 = f0[0], f0[1], f0[2]
										c.Violation("non-local/"+g.Name, fmt.Sprintf("%s on the same %d-byte value (class %d) gives %q at position %d/cap+%d/filler %d but %q at position %d/cap+%d/filler %d",
											g.Name, l, class, clipS(out), pos, slack, filler, clipS(first), f0[0], f0[1], f0[2]), k)
									}
								}
							}
						}
					}
				}
			}
			// values longer than the exhaustive range, for the getters whose value has no fixed size: a destination used
			// before (for shorter values) gives what a fresh one gives
			for gi, g := range c07Getters {
				switch g.Attr {
				case 0x0009, 0x000A, 0x0006, 0x0014, 0x0015, 0x8022:
				default:
					continue
				}
				for _, l := range []int{41, 42, 43, 44, 45, 46, 47, 48, 64, 100, 128, 255, 256, 508, 512, 763, 1000} {
					if l <= maxL {
						continue
					}
					for class := 0; class < len(c07Prefixes); class++ {
						fam++
						if !c.Mine(fam) {
							continue
						}
						c.Eval(1)
						c.DistinctByConstruction++
						if key, detail := c07Reused(gi, l, class); key != "" {
							c.Violation(key, detail, c07Case{Getter: gi, Len: l, Class: class, Pos: -7, Pos2: -1, Seed: c.Seed})
						}
						c.Outcome(g.Name + ":long-value")
					}
				}
			}
			c07TypeHi = 0
			c.Extra("getters", len(c07Getters))
			c.Extra("value_lengths", fmt.Sprintf("0..%d", maxL))
		},
		Replay: func(c *Ctx, p json.RawMessage) {
			var k c07Case
			if err := json.Unmarshal(p, &k); err != nil {
				c.Fail("%v", err)
			}
			c07Fillers[3] = func(i int) byte { return byte(int64(i)*131 + k.Seed*89 + 0x3c) }
			c07TypeHi = []byte{0x00, 0xC0, 0x40, 0x80}[(k.Len+k.Class)%4]
			g := c07Getters[k.Getter]
			if k.Pos == -8 {
				if key, detail := c07InsideForEach(k.Getter, k.Len, k.Class); key != "" {
					c.Violation(key, detail, k)
				}
				return
			}
			if k.Pos == -9 {
				if key, detail := c07FieldTID(k.Getter, k.Len, k.Class); key != "" {
					c.Violation(key, detail, k)
				}
				return
			}
			if k.Pos == -7 {
				if key, detail := c07Reused(k.Getter, k.Len, k.Class); key != "" {
					c.Violation(key, detail, k)
				}
				return
			}
			c07Trail, c07Post, c07Sloppy = k.Trail, k.Post, k.Sloppy
			out, key, detail := c07Eval(k.Getter, k.Len, k.Class, k.Pos, k.Slack, k.Filler)
			c07Trail, c07Post, c07Sloppy = 0, 0, false
			if key != "" {
				c.Violation(key, detail, k)
				return
			}
			if k.Pos2 >= 0 {
				out2, key2, detail2 := c07Eval(k.Getter, k.Len, k.Class, k.Pos2, k.Slack2, k.Filler2)
				if key2 != "" {
					c.Violation(key2, detail2, k)
					return
				}
				if out != out2 {
					c.Violation("non-local/"+g.Name, fmt.Sprintf("%s: %q vs %q", g.Name, clipS(out), clipS(out2)), k)
				}
			}
		},
	}
}
