//go:build !vsched

package main

import (
	"encoding/json"
	"errors"
	"fmt"
	"os"
	"path/filepath"
	"regexp"
	"runtime"
	"strings"
	"sync"
	"sync/atomic"
	"time"

	stun "github.com/pion/stun/v3"
	"github.com/pion/stun/v3/zzverif/hmacx"

	"verif/ref"
)

// Free-running -race pass for the "free of data races" clauses of C14, C15
// and C18. A cooperative scheduler's hand-offs are happens-before edges that
// blind the race detector, so the same kinds of bodies are run here on real
// goroutines against the unmodified tree built with -race. This pass samples
// schedules; it is reported separately (sum_race_pass_iterations) and is not
// what the exhaustive claims rest on. The race detector has no false
// positives: every report is a real unsynchronised access.

// raceReports reads the race detector's log files (GORACE=log_path=...).
func raceReports() string {
	lp := ""
	for _, kv := range strings.Fields(os.Getenv("GORACE")) {
		if strings.HasPrefix(kv, "log_path=") {
			lp = strings.TrimPrefix(kv, "log_path=")
		}
	}
	if lp == "" {
		return ""
	}
	files, _ := filepath.Glob(lp + ".*")
	var sb strings.Builder
	for _, f := range files {
		b, _ := os.ReadFile(f)
		sb.Write(b)
	}
	return sb.String()
}

var raceFrameRe = regexp.MustCompile(`(?m)^\s+(github\.com/pion/stun/v3\S*)\(\)\s*$`)

// raceKey summarises the first report by the library functions involved.
func raceKey(rep string) string {
	i := strings.Index(rep, "WARNING: DATA RACE")
	if i < 0 {
		return ""
	}
	first := rep[i:]
	if j := strings.Index(first[10:], "=================="); j > 0 {
		first = first[:j+10]
	}
	seen := map[string]bool{}
	var fs []string
	for _, m := range raceFrameRe.FindAllStringSubmatch(first, -1) {
		f := strings.TrimPrefix(m[1], "github.com/pion/stun/v3")
		if !seen[f] && !strings.Contains(f, "zzverif") {
			seen[f] = true
			fs = append(fs, f)
		}
		if len(fs) >= 3 {
			break
		}
	}
	return "data-race/" + strings.Join(fs, "+")
}

func racePassFinish(c *Ctx, iters int64, what string) {
	c.Res.Extra["sum_race_pass_iterations"] = float64(iters)
	c.Res.Extra["race_pass"] = what
	racePanicMu.Lock()
	if len(racePanics) > 0 {
		c.Res.Violations = append(c.Res.Violations, raceViolation("panic-free-running", racePanics[0]))
	}
	racePanicMu.Unlock()
	rep := raceReports()
	if k := raceKey(rep); k != "" {
		if len(rep) > 3000 {
			rep = rep[:3000]
		}
		c.Res.Violations = append(c.Res.Violations, raceViolation(k, rep))
		return
	}
	c.Outcome("race-pass:clean")
	c.Outcome("race-pass:iterations")
}

func racePassReplay(run func(c *Ctx)) func(c *Ctx, p json.RawMessage) {
	return func(c *Ctx, p json.RawMessage) {
		c.Tier = "thorough" // more iterations when confirming
		run(c)
	}
}

var (
	racePanicMu sync.Mutex
	racePanics  []string
)

// guard runs f and records a panic instead of crashing the worker (a panic on
// a free-running goroutine is usually the visible end of a race).
func guard(f func()) {
	defer func() {
		if r := recover(); r != nil {
			racePanicMu.Lock()
			racePanics = append(racePanics, fmt.Sprintf("%v | %s", r, shortStack()))
			racePanicMu.Unlock()
		}
	}()
	f()
}

// waitTimeout waits for wg at most d.
func waitTimeout(wg *sync.WaitGroup, d time.Duration) bool {
	done := make(chan struct{})
	go func() { wg.Wait(); close(done) }()
	select {
	case <-done:
		return true
	case <-time.After(d):
		return false
	}
}

// ---- C14: Agent ----

func raceAgent(c *Ctx) {
	iters := 300
	if c.Thorough() {
		iters = 3000
	}
	ids := [][12]byte{{1}, {2}, {3}}
	var total int64
	deadline := time.Now().Add(time.Hour)
	past := time.Now().Add(-time.Hour)
	for it := 0; it < iters; it++ {
		if c.Expired() {
			break
		}
		total++
		var a *stun.Agent
		var mu sync.Mutex
		events := 0
		h := func(e stun.Event) {
			mu.Lock()
			events++
			mu.Unlock()
			if !errors.Is(e.Error, stun.ErrAgentClosed) && it%3 == 1 && e.TransactionID != ids[2] {
				_ = a.Start(ids[2], deadline) // re-entrant (not from Close events)
				_ = a.Stop(ids[2])
			}
		}
		a = stun.NewAgent(h)
		_ = a.Start(ids[0], past)
		var wg sync.WaitGroup
		progs := [][]func(){
			{func() { _ = a.Start(ids[1], deadline) }, func() { _ = a.Stop(ids[0]) }},
			{func() { _ = a.Process(&stun.Message{TransactionID: ids[0]}) }, func() { _ = a.Collect(time.Now()) }},
			{func() { _ = a.SetHandler(h) }, func() { _ = a.StopWithError(ids[1], errors.New("x")) }},
			{func() { _ = a.Collect(time.Now()) }, func() { _ = a.Close() }},
			{func() { _ = a.Start(ids[0], past) }, func() { _ = a.Process(&stun.Message{TransactionID: ids[1]}) }},
		}
		n := 2 + it%4
		for g := 0; g < n; g++ {
			ops := progs[(g+it)%len(progs)]
			wg.Add(1)
			go func() {
				defer wg.Done()
				guard(func() {
					for _, op := range ops {
						op()
					}
				})
			}()
		}
		if !waitTimeout(&wg, 20*time.Second) {
			c.Note("race pass: agent goroutines did not finish within 20 s (iteration %d)", it)
			break
		}
		_ = a.Close()
	}
	// many transactions at one Close / one Collect (what an agent would be tempted to deliver in parallel): every
	// one of them gets exactly one terminal event, and the handler is never entered by two goroutines of one call
	for _, n := range []int{63, 64, 65, 200, 1100} {
		for mode := 0; mode < 2; mode++ {
			var mu sync.Mutex
			seen := map[[12]byte]int{}
			a := stun.NewAgent(func(e stun.Event) {
				mu.Lock()
				seen[e.TransactionID]++
				mu.Unlock()
			})
			for i := 0; i < n; i++ {
				_ = a.Start([12]byte{byte(i), byte(i >> 8), 0x33}, time.Unix(1, 0))
			}
			if mode == 0 {
				_ = a.Close()
			} else {
				_ = a.Collect(time.Unix(2, 0))
				_ = a.Close()
			}
			total++
			bad := ""
			mu.Lock()
			for i := 0; i < n; i++ {
				if k := seen[[12]byte{byte(i), byte(i >> 8), 0x33}]; k != 1 {
					bad = fmt.Sprintf("%d transactions, %s: transaction %d got %d terminal events (want 1; %d ids saw an event)", n, []string{"Close", "Collect then Close"}[mode], i, k, len(seen))
					break
				}
			}
			mu.Unlock()
			if bad != "" {
				c.Res.Violations = append(c.Res.Violations, raceViolation("many-transactions/terminal-events", bad))
				racePassFinish(c, total, "")
				return
			}
		}
	}
	// a very large table: one Collect over 50000 expired transactions while two goroutines Stop them in index order:
	// every transaction gets exactly one terminal event, and Stop()==nil goes with the stopped event
	for round := 0; round < 3; round++ {
		const n = 50000
		var mu sync.Mutex
		stopped, timedOut := make([]uint8, n), make([]uint8, n)
		idOf := func(i int) (t [12]byte) { t[0], t[1], t[2], t[5] = byte(i), byte(i>>8), byte(i>>16), 0x77; return }
		a := stun.NewAgent(func(e stun.Event) {
			i := int(e.TransactionID[0]) | int(e.TransactionID[1])<<8 | int(e.TransactionID[2])<<16
			mu.Lock()
			if errors.Is(e.Error, stun.ErrTransactionStopped) {
				stopped[i]++
			} else if errors.Is(e.Error, stun.ErrTransactionTimeOut) {
				timedOut[i]++
			}
			mu.Unlock()
		})
		for i := 0; i < n; i++ {
			_ = a.Start(idOf(i), time.Unix(1, 0))
		}
		stopOK := make([]uint8, n)
		var wg sync.WaitGroup
		var progress atomic.Int64
		for g := 0; g < 2; g++ {
			g := g
			wg.Add(1)
			go func() {
				defer wg.Done()
				for i := g; i < n; i += 2 {
					if a.Stop(idOf(i)) == nil {
						stopOK[i]++
					}
					progress.Add(1)
				}
			}()
		}
		wg.Add(1)
		go func() {
			defer wg.Done()
			for progress.Load() < 300 {
				runtime.Gosched()
			}
			_ = a.Collect(time.Unix(2, 0))
		}()
		wg.Wait()
		_ = a.Close()
		total++
		for i := 0; i < n; i++ {
			if int(stopped[i])+int(timedOut[i]) != 1 || stopped[i] != stopOK[i] {
				c.Res.Violations = append(c.Res.Violations, raceViolation("many-transactions/terminal-events", fmt.Sprintf("50000 expired transactions, Collect || two goroutines stopping them: transaction %d got %d stopped and %d timeout events, Stop returned nil %d times (want one terminal event, stopped iff Stop returned nil)", i, stopped[i], timedOut[i], stopOK[i])))
				racePassFinish(c, total, "")
				return
			}
		}
	}
	racePassFinish(c, total, "Agent: 2..5 goroutines x 2 operations over 3 shared ids, re-entrant handlers; Close / Collect over 63..1100 transactions; Collect over 50000 || Stop")
}

// ---- C15 / C10: Client ----

type raceConn struct {
	mu     sync.Mutex
	in     chan []byte
	closed chan struct{}
	once   sync.Once
	answer bool
	writes atomic.Int64
}

func (r *raceConn) Read(p []byte) (int, error) {
	select {
	case d := <-r.in:
		return copy(p, d), nil
	case <-r.closed:
		return 0, errors.New("closed")
	}
}

func (r *raceConn) Write(p []byte) (int, error) {
	select {
	case <-r.closed:
		return 0, errors.New("closed")
	default:
	}
	r.writes.Add(1)
	if r.answer && len(p) >= 20 {
		resp := new(stun.Message)
		copy(resp.TransactionID[:], p[8:20])
		resp.Type = stun.BindingSuccess
		resp.WriteHeader()
		select {
		case r.in <- append([]byte(nil), resp.Raw...):
		default:
		}
	}
	return len(p), nil
}

func (r *raceConn) Close() error { r.once.Do(func() { close(r.closed) }); return nil }

type raceClock struct {
	mu  sync.Mutex
	now time.Time
}

func (c *raceClock) Now() time.Time { c.mu.Lock(); defer c.mu.Unlock(); return c.now }
func (c *raceClock) add(d time.Duration) time.Time {
	c.mu.Lock()
	defer c.mu.Unlock()
	c.now = c.now.Add(d)
	return c.now
}

type raceCollector struct {
	mu     sync.Mutex
	f      func(time.Time)
	closed bool
}

func (r *raceCollector) Start(rate time.Duration, f func(time.Time)) error {
	r.mu.Lock()
	r.f = f
	r.mu.Unlock()
	return nil
}
func (r *raceCollector) Close() error { r.mu.Lock(); r.closed = true; r.mu.Unlock(); return nil }

// tick holds the collector's lock for the duration of the call, so that Close waits for a tick in flight.
func (r *raceCollector) tick(t time.Time) {
	r.mu.Lock()
	defer r.mu.Unlock()
	if !r.closed && r.f != nil {
		r.f(t)
	}
}

func raceClient(c *Ctx) {
	iters := 200
	if c.Thorough() {
		iters = 2000
	}
	var total int64
	// first, on one goroutine: a transaction is in flight, Close; its handler is told "closed" and, to make sure, closes
	// the client itself (from inside the outer Close, on the same goroutine). The inner call reports ErrClientClosed, the
	// outer one finishes. A Close that takes 30 s (normally microseconds) is taken as one that never returns.
	for _, withFallback := range []bool{false, true} {
		total++
		conn := &raceConn{in: make(chan []byte, 4), closed: make(chan struct{})}
		opts := []stun.ClientOption{stun.WithClock(&raceClock{now: time.Unix(1700000000, 0)}), stun.WithCollector(&raceCollector{}), stun.WithNoRetransmit}
		if withFallback {
			opts = append(opts, stun.WithHandler(func(stun.Event) {}))
		}
		cl, err := stun.NewClient(conn, opts...)
		if err != nil {
			c.Fail("NewClient: %v", err)
		}
		var inner error
		innerCalled := false
		_ = cl.Start(stun.MustBuild(stun.BindingRequest, stun.NewTransactionIDSetter([12]byte{0xC1, 0x05})), func(e stun.Event) {
			if e.Error != nil && !innerCalled {
				innerCalled = true
				inner = cl.Close()
			}
		})
		done := make(chan error, 1)
		go func() { done <- cl.Close() }()
		select {
		case outer := <-done:
			if outer != nil || !innerCalled || !errors.Is(inner, stun.ErrClientClosed) {
				c.Res.Violations = append(c.Res.Violations, raceViolation("close-from-its-own-handler", fmt.Sprintf("Close with a transaction in flight whose handler calls Close: outer Close = %v, handler called = %v, inner Close = %v (want nil, true, ErrClientClosed)", outer, innerCalled, inner)))
				racePassFinish(c, total, "")
				return
			}
		case <-time.After(30 * time.Second):
			c.Res.Violations = append(c.Res.Violations, raceViolation("close-from-its-own-handler/never-returns", "Close with a transaction in flight whose handler (told that the client is closing) calls Close itself: the outer Close has not returned after 30 s"))
			racePassFinish(c, total, "")
			return
		}
	}
	for it := 0; it < iters; it++ {
		if c.Expired() {
			break
		}
		total++
		conn := &raceConn{in: make(chan []byte, 64), closed: make(chan struct{}), answer: it%4 != 3}
		clk := &raceClock{now: time.Unix(1700000000, 0)}
		coll := &raceCollector{}
		opts := []stun.ClientOption{stun.WithClock(clk), stun.WithCollector(coll), stun.WithRTO(time.Millisecond)}
		if it%5 == 0 {
			opts = append(opts, stun.WithNoRetransmit)
		}
		if it%7 == 0 {
			opts = append(opts, stun.WithHandler(func(stun.Event) {}))
		}
		cl, err := stun.NewClient(conn, opts...)
		if err != nil {
			c.Fail("NewClient: %v", err)
		}
		var wg sync.WaitGroup
		run := func(f func()) {
			wg.Add(1)
			go func() { defer wg.Done(); guard(f) }()
		}
		mk := func(b byte) *stun.Message {
			return stun.MustBuild(stun.BindingRequest, stun.NewTransactionIDSetter([12]byte{b, byte(it), byte(it >> 8)}))
		}
		run(func() { _ = cl.Start(mk(1), func(stun.Event) {}) })
		run(func() { _ = cl.Do(mk(2), func(stun.Event) {}) })
		run(func() { _ = cl.Indicate(mk(3)) })
		run(func() { cl.SetRTO(2 * time.Millisecond) })
		run(func() {
			for k := 0; k < 10; k++ {
				coll.tick(clk.add(time.Hour))
			}
		})
		if it%2 == 0 {
			run(func() { _ = cl.Start(mk(1), func(stun.Event) {}) }) // same id: duplicate
		}
		run(func() { _ = cl.Close() })
		if it%3 == 0 {
			run(func() { _ = cl.Close() })
		}
		if !waitTimeout(&wg, 20*time.Second) {
			// e.g. a Do whose response was lost and whose ticks are over: close and give up on this iteration
			_ = cl.Close()
			for k := 0; k < 10; k++ {
				coll.tick(clk.add(time.Hour))
			}
			if !waitTimeout(&wg, 20*time.Second) {
				c.Note("race pass: client goroutines did not finish (iteration %d)", it)
				break
			}
		}
		_ = cl.Close()
	}
	racePassFinish(c, total, "Client: Start, Do, Indicate, SetRTO, ticks, duplicate Start and 1-2 Close calls on concurrent goroutines with an answering connection")
}

// ---- C18: HMAC pool ----

func raceHMAC(c *Ctx) {
	iters := 300
	if c.Thorough() {
		iters = 3000
	}
	var total int64
	// first, on one goroutine (deterministic, the real sync.Pool): one instance stays in use while n other keys pass
	// through the same pool - what a server verifying n other users' messages does while one check is in progress
	for _, sha256on := range []bool{false, true} {
		acquire, put, refMAC := hmacx.AcquireSHA1, hmacx.PutSHA1, ref.HMACSHA1
		if sha256on {
			acquire, put, refMAC = hmacx.AcquireSHA256, hmacx.PutSHA256, ref.HMACSHA256
		}
		for _, n := range []int{1, 2, 3, 4, 8, 15, 16, 17, 31, 32, 33, 64, 65, 128, 300} {
			for prep := 0; prep < 3; prep++ {
				total++
				keyA := patBytes([]int{20, 64, 100}[prep], 200+n)
				p1, p2, msg2 := patBytes(70, 1), patBytes(33, 2), patBytes(5, 3)
				if prep > 0 { // the key has been through the pool before
					h0 := acquire(keyA)
					h0.Write(p1)
					put(h0)
				}
				hA := acquire(keyA)
				hA.Write(p1)
				bad := ""
				for i := 0; i < n && bad == ""; i++ {
					k := patBytes(1+(i*7)%90, i)
					k = append(k, byte(i), byte(i>>8)) // distinct
					h := acquire(k)
					h.Write(p2)
					if got := h.Sum(nil); string(got) != string(refMAC(k, p2)) {
						bad = fmt.Sprintf("key %d of %d passing through the pool while another instance is in use: wrong HMAC (sha256=%v)", i, n, sha256on)
					}
					put(h)
				}
				if bad == "" {
					hA.Write(p2)
					if got := hA.Sum(nil); string(got) != string(refMAC(keyA, append(append([]byte{}, p1...), p2...))) {
						bad = fmt.Sprintf("an instance keyed with a %d-byte key (seen by the pool %d times before), half written, then %d other keys acquired, used and returned: its Sum is not the HMAC of what was written to it (sha256=%v)", len(keyA), prep, n, sha256on)
					}
				}
				if bad == "" {
					hA.Reset()
					hA.Write(msg2)
					if got := hA.Sum(nil); string(got) != string(refMAC(keyA, msg2)) {
						bad = fmt.Sprintf("an instance keyed with a %d-byte key, after %d other keys went through the pool: Reset, Write, Sum is not the HMAC under its key (sha256=%v)", len(keyA), n, sha256on)
					}
				}
				put(hA)
				if bad != "" {
					c.Res.Violations = append(c.Res.Violations, raceViolation("wrong-digest/instance-in-use-while-other-keys-pass", bad))
					racePassFinish(c, total, "")
					return
				}
			}
		}
	}
	// the pool behind MESSAGE-INTEGRITY: after integrity operations that fail and succeed in every order (each takes an
	// instance and returns it once), two instances taken at the same time are two instances
	for order := 0; order < 8; order++ {
		total++
		key := stun.MessageIntegrity(patBytes(20, 60+order))
		m := stun.MustBuild(stun.BindingRequest, stun.NewTransactionIDSetter([12]byte{0x18, byte(order)}), stun.NewUsername("u"), key)
		for step := 0; step < 3; step++ {
			if order>>step&1 == 1 {
				_ = stun.MessageIntegrity("not the key").Check(m)
			} else {
				_ = key.Check(m)
			}
		}
		k1, k2, msg := patBytes(20, 1), patBytes(33, 2), patBytes(50, 3)
		h1 := hmacx.AcquireSHA1(k1)
		h2 := hmacx.AcquireSHA1(k2)
		h1.Write(msg)
		h2.Write(msg)
		g1, g2 := h1.Sum(nil), h2.Sum(nil)
		hmacx.PutSHA1(h1)
		hmacx.PutSHA1(h2)
		if string(g1) != string(ref.HMACSHA1(k1, msg)) || string(g2) != string(ref.HMACSHA1(k2, msg)) {
			c.Res.Violations = append(c.Res.Violations, raceViolation("wrong-digest/two-instances-after-integrity-checks", fmt.Sprintf("after three MessageIntegrity.Check calls (bit i of %d set: call i with a wrong key), two pooled instances taken at the same time with different keys: digests right = %v, %v", order, string(g1) == string(ref.HMACSHA1(k1, msg)), string(g2) == string(ref.HMACSHA1(k2, msg)))))
			racePassFinish(c, total, "")
			return
		}
	}
	// the two pools are two pools: one key through both, in both orders (a long-term key is used with SHA-1 by RFC
	// 5389 peers and with SHA-256 by RFC 8489 peers)
	for _, kl := range []int{0, 20, 64, 65, 100, 300} {
		for order := 0; order < 2; order++ {
			total++
			key, msg := patBytes(kl, 77+order), patBytes(41, 9)
			for step := 0; step < 4; step++ {
				use256 := (step+order)%2 == 1
				var got, want []byte
				if use256 {
					h := hmacx.AcquireSHA256(key)
					h.Write(msg)
					got, want = h.Sum(nil), ref.HMACSHA256(key, msg)
					hmacx.PutSHA256(h)
				} else {
					h := hmacx.AcquireSHA1(key)
					h.Write(msg)
					got, want = h.Sum(nil), ref.HMACSHA1(key, msg)
					hmacx.PutSHA1(h)
				}
				if string(got) != string(want) {
					c.Res.Violations = append(c.Res.Violations, raceViolation("wrong-digest/one-key-through-both-pools", fmt.Sprintf("a %d-byte key used with both pools in turn (first with sha256=%v): use %d (sha256=%v) gives a wrong HMAC", kl, order == 1, step, use256)))
					racePassFinish(c, total, "")
					return
				}
			}
		}
	}
	for it := 0; it < iters; it++ {
		if c.Expired() {
			break
		}
		total++
		var wg sync.WaitGroup
		bad := make(chan string, 16)
		for g := 0; g < 4+it%5; g++ {
			g := g
			wg.Add(1)
			go func() {
				defer wg.Done()
				defer func() {
					if r := recover(); r != nil {
						racePanicMu.Lock()
						racePanics = append(racePanics, fmt.Sprintf("%v | %s", r, shortStack()))
						racePanicMu.Unlock()
					}
				}()
				key := patBytes(1+(g*37+it)%300, g)
				msg := patBytes((g*53+it)%500, g+1)
				h := hmacx.AcquireSHA1(key)
				h.Write(msg[:len(msg)/2])
				h.Write(msg[len(msg)/2:])
				got := h.Sum(nil)
				hmacx.PutSHA1(h)
				if want := ref.HMACSHA1(key, msg); string(got) != string(want) {
					select {
					case bad <- fmt.Sprintf("goroutine %d: wrong SHA-1 HMAC", g):
					default:
					}
				}
				h2 := hmacx.AcquireSHA256(key)
				h2.Write(msg)
				got2 := h2.Sum(nil)
				hmacx.PutSHA256(h2)
				if want := ref.HMACSHA256(key, msg); string(got2) != string(want) {
					select {
					case bad <- fmt.Sprintf("goroutine %d: wrong SHA-256 HMAC", g):
					default:
					}
				}
				// through MESSAGE-INTEGRITY
				m := stun.MustBuild(stun.BindingRequest, stun.NewTransactionIDSetter([12]byte{byte(g)}), stun.NewUsername("u"), stun.MessageIntegrity(key))
				if err := stun.MessageIntegrity(key).Check(m); err != nil {
					select {
					case bad <- fmt.Sprintf("goroutine %d: integrity check of own message failed: %v", g, err):
					default:
					}
				}
			}()
		}
		wg.Wait()
		select {
		case b := <-bad:
			c.Res.Violations = append(c.Res.Violations, raceViolation("wrong-digest-free-running", b))
			racePassFinish(c, total, "")
			return
		default:
		}
	}
	racePassFinish(c, total, "HMAC pool: 4..8 goroutines acquire/write/sum/put (SHA-1, SHA-256) and sign+check messages")
}

// ---- C10: the built-in collector with a caller-supplied clock ----

type stepClock struct {
	mu   sync.Mutex
	now  time.Time
	step time.Duration
}

func (c *stepClock) Now() time.Time {
	c.mu.Lock()
	defer c.mu.Unlock()
	c.now = c.now.Add(c.step)
	return c.now
}

// raceDefaultCollector runs the one component the scheduler harness replaces: the ticker collector. With a
// clock that is far from wall time and jumps an hour per reading, a lost request must still be retransmitted
// and timed out by the client's own ticks (deadlines and collection must use the same clock).
func raceDefaultCollector(c *Ctx) {
	iters := 5
	if c.Thorough() {
		iters = 40
	}
	var total int64
	for it := 0; it < iters; it++ {
		total++
		conn := &raceConn{in: make(chan []byte, 4), closed: make(chan struct{})}
		clk := &stepClock{now: time.Date(2100+it, 1, 1, 0, 0, 0, 0, time.UTC), step: time.Hour}
		cl, err := stun.NewClient(conn, stun.WithClock(clk))
		if err != nil {
			c.Fail("NewClient: %v", err)
		}
		done := make(chan error, 1)
		var got error
		go func() {
			done <- cl.Do(stun.MustBuild(stun.BindingRequest, stun.TransactionID), func(e stun.Event) { got = e.Error })
		}()
		select {
		case derr := <-done:
			if derr != nil || !errors.Is(got, stun.ErrTransactionTimeOut) {
				c.Res.Violations = append(c.Res.Violations, raceViolation("default-collector/outcome", fmt.Sprintf("Do with the built-in collector and a custom clock: Do returned %v, handler got %v (want a timeout)", derr, got)))
			}
		case <-time.After(30 * time.Second):
			c.Res.Violations = append(c.Res.Violations, raceViolation("default-collector/do-never-returns", "Do with the built-in collector and a caller-supplied clock (an hour per reading, year 2100) did not time out within 30 s of wall time: the collector does not collect on the client's clock"))
			_ = cl.Close()
			racePassFinish(c, total, "")
			return
		}
		_ = cl.Close()
	}
	racePassFinish(c, total, "Client with the built-in ticker collector and a caller-supplied clock: a lost request is retransmitted and timed out")
}

// ---- C11: the built-in collector with a clock that does not move ----

type frozenClock struct{ t time.Time }

func (f frozenClock) Now() time.Time { return f.t }

// raceFrozenClock: the retransmission schedule is stated on the client's clock. With a clock that stands still
// (in the year 2000) and the built-in ticker collector, nothing may be retransmitted or timed out, however much
// wall time passes: "no event" cannot be produced by a slow machine, so this wall-clock wait cannot raise a false alarm.
func raceFrozenClock(c *Ctx) {
	iters := 3
	if c.Thorough() {
		iters = 20
	}
	var total int64
	for it := 0; it < iters; it++ {
		total++
		conn := &raceConn{in: make(chan []byte, 4), closed: make(chan struct{})}
		clk := frozenClock{time.Date(2000, 1, 1, 0, 0, 0, 0, time.UTC)}
		cl, err := stun.NewClient(conn, stun.WithClock(clk), stun.WithRTO(time.Millisecond))
		if err != nil {
			c.Fail("NewClient: %v", err)
		}
		var events atomic.Int64
		var first atomic.Value
		serr := cl.Start(stun.MustBuild(stun.BindingRequest, stun.TransactionID), func(e stun.Event) {
			events.Add(1)
			first.CompareAndSwap(nil, fmt.Sprint(e.Error))
		})
		time.Sleep(120 * time.Millisecond)
		w, ev := conn.writes.Load(), events.Load()
		if serr != nil || w != 1 || ev != 0 {
			c.Res.Violations = append(c.Res.Violations, raceViolation("default-collector/acts-while-the-clock-stands-still",
				fmt.Sprintf("built-in collector, client clock frozen at 2000-01-01, RTO 1 ms, 120 ms of wall time: Start=%v, %d writes (want 1), %d handler calls (want 0; first: %v): the schedule does not follow the client's clock", serr, w, ev, first.Load())))
			_ = cl.Close()
			racePassFinish(c, total, "")
			return
		}
		_ = cl.Close()
	}
	racePassFinish(c, total, "Client with the built-in ticker collector and a clock that stands still: nothing is retransmitted or timed out")
}

// ---- C15: Close waits for the built-in collector, however long a handler takes ----

type setClock struct {
	mu sync.Mutex
	t  time.Time
}

func (s *setClock) Now() time.Time { s.mu.Lock(); defer s.mu.Unlock(); return s.t }
func (s *setClock) add(d time.Duration) {
	s.mu.Lock()
	s.t = s.t.Add(d)
	s.mu.Unlock()
}

// raceSlowHandler: two requests time out in one tick of the built-in collector; the first time-out handler takes
// 1.3 s; Close is called while it runs. When Close returns the collector must have finished: no handler may BEGIN
// afterwards. The unchanged Close waits for the collector goroutine, which is inside that delivery loop, so the
// assertion cannot fail because the machine is slow.
func raceSlowHandler(c *Ctx) (int64, bool) {
	iters := 1
	if c.Thorough() {
		iters = 3
	}
	var total int64
	for it := 0; it < 2*iters; it++ {
		total++
		conn := &raceConn{in: make(chan []byte, 4), closed: make(chan struct{})}
		clk := &setClock{t: time.Date(2030, 1, 1, 0, 0, 0, 0, time.UTC)}
		opts := []stun.ClientOption{stun.WithClock(clk), stun.WithRTO(10 * time.Millisecond), stun.WithNoRetransmit, stun.WithTimeoutRate(time.Millisecond)}
		if it%2 == 1 {
			// everything at its default (system clock, default rate), and another idle client with default options alive
			// in the process: what one client's Close waits for is its own collector, whoever else has one
			opts = []stun.ClientOption{stun.WithRTO(10 * time.Millisecond), stun.WithNoRetransmit}
			bystander, berr := stun.NewClient(&raceConn{in: make(chan []byte, 4), closed: make(chan struct{})})
			if berr != nil {
				c.Fail("NewClient: %v", berr)
			}
			defer bystander.Close()
		}
		cl, err := stun.NewClient(conn, opts...)
		if err != nil {
			c.Fail("NewClient: %v", err)
		}
		var mu sync.Mutex
		var closeReturned bool
		begunAfterClose, calls := 0, 0
		entered := make(chan struct{}, 2)
		h := func(stun.Event) {
			mu.Lock()
			calls++
			first := calls == 1
			if closeReturned {
				begunAfterClose++
			}
			mu.Unlock()
			entered <- struct{}{}
			if first {
				time.Sleep(1300 * time.Millisecond)
			}
		}
		for i := 0; i < 2; i++ {
			if err := cl.Start(stun.MustBuild(stun.BindingRequest, stun.TransactionID), h); err != nil {
				c.Fail("Start: %v", err)
			}
		}
		clk.add(time.Hour) // both deadlines have passed: the next tick times both out
		select {
		case <-entered:
		case <-time.After(20 * time.Second):
			c.Res.Violations = append(c.Res.Violations, raceViolation("default-collector/no-timeout", "two lost requests were not timed out by the built-in collector within 20 s"))
			_ = cl.Close()
			return total, false
		}
		cerr := cl.Close()
		mu.Lock()
		closeReturned = true
		n0 := calls
		mu.Unlock()
		time.Sleep(1600 * time.Millisecond) // lets a collector that outlived Close show itself
		mu.Lock()
		n1, late := calls, begunAfterClose
		mu.Unlock()
		if late > 0 || n1 != n0 {
			c.Res.Violations = append(c.Res.Violations, raceViolation("default-collector/handler-after-close",
				fmt.Sprintf("Close (returned %v) came back while the built-in collector was still delivering time-outs: %d handler call(s) began after Close had returned (%d calls when it returned, %d later); the first handler takes 1.3 s", cerr, late, n0, n1)))
			return total, false
		}
	}
	return total, true
}

func init() {
	registry["C11"] = propImpl{Run: raceFrozenClock, Replay: racePassReplay(raceFrozenClock)}
	registry["C10"] = propImpl{Run: raceDefaultCollector, Replay: racePassReplay(raceDefaultCollector)}
	registry["C14"] = propImpl{Run: raceAgent, Replay: racePassReplay(raceAgent)}
	c15 := func(c *Ctx) {
		if _, ok := raceSlowHandler(c); !ok {
			racePassFinish(c, 1, "")
			return
		}
		raceClient(c)
	}
	registry["C15"] = propImpl{Run: c15, Replay: racePassReplay(c15)}
	registry["C18"] = propImpl{Run: raceHMAC, Replay: racePassReplay(raceHMAC)}
}
