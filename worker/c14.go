//go:build vsched

package main

import (
	"encoding/json"
	"fmt"
	"sort"

	stun "github.com/pion/stun/v3"
	"github.com/pion/stun/v3/zzverif/sched"

	"verif/mc/explore"
	"verif/ref"
)

// C14: Agent is linearizable and deadlock-free under concurrency (the
// data-race clause is decided by the free-running -race pass, see c14race.go).

// lcall is one recorded call.
type lcall struct {
	Thread int
	Op     agentOp
	Inv    int
	Ret    int
	Result string
	Events []ref.AgentEvent
	Parent int // index of the call whose handler issued this one, or -1
	Done   bool
	// Panicked: the handler panicked at the first event of this call and the panic came through the call (mode 5): the
	// call had taken effect; of its events only that first one was seen
	Panicked bool
}

type c14Program struct {
	Init    int         `json:"init"`    // 0 empty, 1 A registered, 2 A and B registered
	Mode    int         `json:"mode"`    // 0 plain handlers, 1 handler re-enters with Start(C), 2 handler re-enters with Stop(B)
	Threads [][]agentOp `json:"threads"` // ops per thread
	Prefix  []int       `json:"prefix,omitempty"`
}

func (p c14Program) String() string {
	s := fmt.Sprintf("init=%d mode=%d", p.Init, p.Mode)
	for i, t := range p.Threads {
		s += fmt.Sprintf(" | T%d:%v", i, t)
	}
	return s
}

var c14Alphabet = []agentOp{
	{Kind: "start", ID: 0, T: 2},
	{Kind: "start", ID: 1, T: 3},
	{Kind: "stop", ID: 0},
	{Kind: "process", ID: 0, H: 1}, // (an indication that carries the id: the class of a message is not the agent's business)
	{Kind: "collect", T: 5},
	{Kind: "sethandler", H: 2},
	{Kind: "close"},
}

// c14Exec runs the program once under the scheduler and returns the recorded history.
func c14Exec(p c14Program) (*sched.Result, []lcall) {
	var calls []lcall
	clock := 0
	tick := func() int { clock++; return clock }
	res := sched.Run(sched.Config{Prefix: p.Prefix, MapFanout: false}, func() {
		cur := map[int]int{} // thread -> index of its innermost open call
		var a *stun.Agent
		var hs [3]stun.Handler
		var do func(thread int, op agentOp, parent int)
		mk := func(n int) stun.Handler {
			return func(e stun.Event) {
				th := sched.CurrentID()
				ci, ok := cur[th]
				if !ok {
					return // events of the sequential initialisation
				}
				r := &agentRun{}
				_ = r
				ev := ref.AgentEvent{Handler: n, ID: idName(e.TransactionID)}
				closedEv := false
				switch {
				case e.Error == nil && e.Message != nil:
					ev.Kind, ev.Arg = ref.EvMessage, "the-message"
				case e.Error == stun.ErrTransactionTimeOut:
					ev.Kind = ref.EvTimeout
				case e.Error == stun.ErrAgentClosed:
					ev.Kind = ref.EvClosed
					closedEv = true
				case e.Error == stun.ErrTransactionStopped:
					ev.Kind, ev.Arg = ref.EvStopped, "ErrTransactionStopped"
				default:
					ev.Kind = fmt.Sprintf("unknown(%v)", e.Error)
				}
				calls[ci].Events = append(calls[ci].Events, ev)
				sched.Point("handler", nil)
				// re-enter the agent from the handler (not from Close events, per the statement)
				if !closedEv && calls[ci].Parent < 0 {
					switch p.Mode {
					case 1:
						do(th, agentOp{Kind: "start", ID: 2, T: 4}, ci)
					case 2:
						do(th, agentOp{Kind: "stop", ID: 1}, ci)
					case 3:
						do(th, agentOp{Kind: "collect", T: 5}, ci)
					case 4: // Start(C) from the first event of the call only
						if len(calls[ci].Events) == 1 {
							do(th, agentOp{Kind: "start", ID: 2, T: 4}, ci)
						}
					case 5: // the handler panics at the first time-out of a call; the caller of that call recovers
						if ev.Kind == ref.EvTimeout && len(calls[ci].Events) == 1 {
							calls[ci].Panicked = true
							panic(errC13HandlerPanic)
						}
					}
				}
			}
		}
		hs[1], hs[2] = mk(1), mk(2)
		do = func(thread int, op agentOp, parent int) {
			idx := len(calls)
			calls = append(calls, lcall{Thread: thread, Op: op, Inv: tick(), Parent: parent})
			prev, had := cur[thread]
			cur[thread] = idx
			var err error
			id := agentID(op.ID)
			switch op.Kind {
			case "start":
				err = a.Start(id, agentTime(op.T))
			case "stop":
				err = a.Stop(id)
			case "process":
				err = a.Process(&stun.Message{TransactionID: id, Type: stun.NewType(stun.MethodBinding, stun.MessageClass(op.H&3))})
			case "collect":
				func() {
					defer func() {
						if rec := recover(); rec != nil && rec != errC13HandlerPanic {
							panic(rec)
						}
					}()
					err = a.Collect(agentTime(op.T))
				}()
			case "sethandler":
				err = a.SetHandler(hs[op.H])
			case "close":
				err = a.Close()
			}
			calls[idx].Result = retName(err)
			calls[idx].Ret = tick()
			calls[idx].Done = true
			if had {
				cur[thread] = prev
			} else {
				delete(cur, thread)
			}
		}
		a = stun.NewAgent(hs[1])
		if p.Init >= 1 {
			_ = a.Start(agentID(0), agentTime(2))
		}
		if p.Init >= 2 {
			_ = a.Start(agentID(1), agentTime(3))
		}
		if p.Init >= 3 && p.Init < 100 {
			_ = a.Start(agentID(2), agentTime(4))
		}
		if p.Init >= 100 { // many transactions, all expired at Collect(t5)
			for i := 4; i < 4+p.Init; i++ {
				_ = a.Start(agentID(i), agentTime(1))
			}
		}
		for ti, ops := range p.Threads {
			ops := ops
			var tid int
			tid = sched.Spawn(fmt.Sprintf("T%d", ti), func() {
				for _, op := range ops {
					sched.Point("invoke", nil)
					do(tid, op, -1)
				}
			})
		}
	})
	return res, calls
}

// c14Linearizable searches for a sequential order of the calls that respects
// real-time order (and handler causality) and reproduces every result and
// event set under the transaction-table model.
func c14Linearizable(p c14Program, calls []lcall) bool {
	n := len(calls)
	model := ref.NewAgentModel(1)
	if p.Init >= 1 {
		model.Start("A", 2)
	}
	if p.Init >= 2 {
		model.Start("B", 3)
	}
	if p.Init >= 3 && p.Init < 100 {
		model.Start("C", 4)
	}
	if p.Init >= 100 {
		for i := 4; i < 4+p.Init; i++ {
			model.Start(agentIDName(i), 1)
		}
	}
	used := make([]bool, n)
	var rec func(m *ref.AgentModel, placed int) bool
	rec = func(m *ref.AgentModel, placed int) bool {
		if placed == n {
			return true
		}
		for i := 0; i < n; i++ {
			if used[i] {
				continue
			}
			// real-time order: every unplaced call that returned before i was invoked must go first
			ok := true
			for j := 0; j < n; j++ {
				if j != i && !used[j] && calls[j].Ret < calls[i].Inv {
					ok = false
					break
				}
			}
			// causality: a call made from a handler comes after the call that emitted the event
			if ok && calls[i].Parent >= 0 && !used[calls[i].Parent] {
				ok = false
			}
			if !ok {
				continue
			}
			mm := m.Clone()
			var ret string
			var evs []ref.AgentEvent
			op := calls[i].Op
			name := agentIDName(op.ID)
			switch op.Kind {
			case "start":
				ret = mm.Start(name, int64(op.T))
			case "stop":
				ret, evs = mm.Stop(name, "ErrTransactionStopped")
			case "process":
				ret, evs = mm.Process(name, "the-message")
			case "collect":
				ret, evs = mm.Collect(int64(op.T))
			case "sethandler":
				ret = mm.SetHandler(op.H)
			case "close":
				ret, evs = mm.Close()
			}
			if calls[i].Panicked {
				// (what it returned is the panic; of what it would have reported, the first event was seen)
				okEv := len(calls[i].Events) == 1
				if okEv {
					okEv = false
					for _, e := range evs {
						if e == calls[i].Events[0] {
							okEv = true
						}
					}
				}
				if !okEv {
					continue
				}
			} else if ret != calls[i].Result || !sameEvents(evs, calls[i].Events) {
				continue
			}
			used[i] = true
			if rec(mm, placed+1) {
				return true
			}
			used[i] = false
		}
		return false
	}
	return rec(model, 0)
}

func sameEvents(a, b []ref.AgentEvent) bool {
	if len(a) != len(b) {
		return false
	}
	x := append([]ref.AgentEvent(nil), a...)
	y := append([]ref.AgentEvent(nil), b...)
	ref.SortEvents(x)
	ref.SortEvents(y)
	for i := range x {
		if x[i] != y[i] {
			return false
		}
	}
	return true
}

func historyString(calls []lcall) string {
	s := ""
	for i, c := range calls {
		par := ""
		if c.Parent >= 0 {
			par = fmt.Sprintf(" from handler of #%d", c.Parent)
		}
		s += fmt.Sprintf("#%d T%d %v [%d,%d] -> %s %v%s; ", i, c.Thread, c.Op, c.Inv, c.Ret, c.Result, c.Events, par)
	}
	return s
}

func c14Run(p c14Program) explore.RunFunc {
	return func(prefix []int) (*sched.Result, []explore.Finding, string) {
		pp := p
		pp.Prefix = prefix
		res, calls := c14Exec(pp)
		var finds []explore.Finding
		switch res.Status {
		case sched.StatusDone:
			for _, cl := range calls {
				if !cl.Done {
					finds = append(finds, explore.Finding{Key: "call-never-returned", Detail: historyString(calls)})
				}
			}
			if len(finds) == 0 && !c14Linearizable(p, calls) {
				finds = append(finds, explore.Finding{Key: "not-linearizable", Detail: "no sequential order of the calls explains: " + historyString(calls)})
			}
		case sched.StatusDeadlock:
			finds = append(finds, explore.Finding{Key: "deadlock", Detail: fmt.Sprintf("blocked: %v; history so far: %s", res.Blocked, historyString(calls))})
		case sched.StatusDivergent:
		default:
			finds = append(finds, explore.Finding{Key: "status-" + res.Status, Detail: res.PanicVal + fmt.Sprint(res.Blocked)})
		}
		// outcome signature: results + event counts
		sig := make([]string, 0, len(calls))
		for _, cl := range calls {
			sig = append(sig, fmt.Sprintf("%s:%s:%d", cl.Op.Kind, cl.Result, len(cl.Events)))
		}
		sort.Strings(sig)
		return res, finds, fmt.Sprint(sig)
	}
}

func init() {
	registry["C14"] = propImpl{
		Run: func(c *Ctx) {
			var item int64
			pb := 3
			if c.Thorough() {
				pb = 1000 // effectively unbounded for these program sizes
			}
			distinctOutcomes := map[string]bool{}
			explored := func(p c14Program) {
				item++
				if !c.Mine(item) {
					return
				}
				if c.Expired() {
					c.Res.Exhaustive = false
					return
				}
				bound := pb
				if p.Init >= 100 && bound > 2 {
					bound = 2 // ~110 scheduling points per execution: two preemptions already give ~10^4 executions
				}
				if p.Init >= 1000 {
					bound = 1 // ~1040 scheduling points per execution
				}
				if p.Init >= 4000 {
					bound = 0 // thousands of points per execution: every choice at a blocking or yielding point, no preemption
				}
				st := explore.Explore(c14Run(p), explore.Options{Preemptions: bound, EnvDevs: -1, Deadline: c.Deadline})
				if st.HarnessError != "" {
					c.Fail("%s on %v", st.HarnessError, p)
				}
				c.Eval(st.Executions)
				c.DistinctByConstruction += st.Executions
				c.Res.States += st.Executions
				c.Res.Transitions += st.Points + st.Executions
				c.Res.Traces += st.Executions
				c.Res.Extra["sum_programs"] = c.extraNum("sum_programs") + 1
				if float64(st.MaxPoints) > c.extraNum("max_choice_points_per_execution") {
					c.Res.Extra["max_choice_points_per_execution"] = float64(st.MaxPoints)
				}
				if !st.Complete {
					c.Res.Exhaustive = false
				}
				for o, n := range st.Outcomes {
					distinctOutcomes[o] = true
					_ = n
				}
				c.Res.Outcomes[fmt.Sprintf("outcomes-per-program=%d", len(st.Outcomes))]++
				for _, f := range st.Found {
					pp := p
					pp.Prefix = f.Choices
					c.Violation(f.Key, fmt.Sprintf("%v schedule %v => %s", p, f.Choices, f.Detail), pp)
				}
				if item%977 == 3 {
					c.Sample(p.String())
				}
			}
			var seqs [][]agentOp
			for _, a := range c14Alphabet {
				seqs = append(seqs, []agentOp{a})
			}
			for _, a := range c14Alphabet {
				for _, b := range c14Alphabet {
					seqs = append(seqs, []agentOp{a, b})
				}
			}
			for init := 0; init < 3; init++ {
				for mode := 0; mode < 3; mode++ {
					// 2 threads x <=2 ops (unordered pairs: thread identity is symmetric)
					for i, s1 := range seqs {
						for j, s2 := range seqs {
							if j < i {
								continue
							}
							explored(c14Program{Init: init, Mode: mode, Threads: [][]agentOp{s1, s2}})
						}
					}
					// 3 threads x 1 op
					for i := range c14Alphabet {
						for j := i; j < len(c14Alphabet); j++ {
							for k := j; k < len(c14Alphabet); k++ {
								explored(c14Program{Init: init, Mode: mode, Threads: [][]agentOp{{c14Alphabet[i]}, {c14Alphabet[j]}, {c14Alphabet[k]}}})
							}
						}
					}
				}
			}
			// extended family: three registered transactions, one thread collecting / processing while another
			// issues 3 operations that re-register, add and collect (overlapping Collect calls with several ids each)
			ext := []agentOp{{Kind: "start", ID: 0, T: 1}, {Kind: "start", ID: 3, T: 1}, {Kind: "collect", T: 5}, {Kind: "stop", ID: 1}, {Kind: "process", ID: 2}}
			firsts := [][]agentOp{{{Kind: "collect", T: 5}}, {{Kind: "collect", T: 5}, {Kind: "collect", T: 5}}, {{Kind: "process", ID: 0}, {Kind: "collect", T: 5}}}
			for _, mode := range []int{0, 3} {
				for _, f := range firsts {
					for _, a1 := range ext {
						for _, a2 := range ext {
							for _, a3 := range ext {
								explored(c14Program{Init: 3, Mode: mode, Threads: [][]agentOp{f, {a1, a2, a3}}})
							}
						}
					}
				}
			}
			// partial expiry: a Collect that times out only the earliest of three transactions (A at 2, B at 3, C at 4;
			// Collect(3) takes A) overlaps a thread that registers an even earlier one, collects again at a time
			// between the deadlines, and stops it: anything a Collect remembers about "the earliest deadline left"
			// must not outlive a concurrent Start
			part := []agentOp{{Kind: "start", ID: 3, T: 1}, {Kind: "collect", T: 2}, {Kind: "collect", T: 5}, {Kind: "stop", ID: 3}, {Kind: "stop", ID: 1}}
			for _, first := range [][]agentOp{{{Kind: "collect", T: 3}}, {{Kind: "collect", T: 3}, {Kind: "collect", T: 4}}} {
				for _, a1 := range part {
					for _, a2 := range part {
						for _, a3 := range part {
							explored(c14Program{Init: 3, Mode: 0, Threads: [][]agentOp{first, {a1, a2, a3}}})
						}
					}
				}
			}
			// more expired transactions than one Collect pass may hold (the source sizes its scratch for 100):
			// Collect must still be one atomic step against Stop / Close / Start of those ids
			for _, other := range [][]agentOp{
				{{Kind: "stop", ID: 4 + 103}, {Kind: "stop", ID: 4}},
				{{Kind: "stop", ID: 4}, {Kind: "stop", ID: 4 + 103}},
				{{Kind: "close"}},
				{{Kind: "start", ID: 4 + 50, T: 1}, {Kind: "stop", ID: 4 + 102}},
			} {
				explored(c14Program{Init: 104, Mode: 0, Threads: [][]agentOp{{{Kind: "collect", T: 5}}, other}})
			}
			// a handler that panics at the first time-out of a Collect (its caller recovers) while another thread registers
			// one of the ids of that batch again: the Collect had taken effect before it ran the handler, and that is all
			for _, other := range [][]agentOp{
				{{Kind: "start", ID: 1, T: 6}},
				{{Kind: "start", ID: 1, T: 6}, {Kind: "stop", ID: 1}},
				{{Kind: "start", ID: 0, T: 6}, {Kind: "start", ID: 1, T: 6}},
			} {
				for _, first := range [][]agentOp{
					{{Kind: "collect", T: 5}, {Kind: "collect", T: 5}},
					{{Kind: "collect", T: 5}, {Kind: "stop", ID: 1}},
					{{Kind: "collect", T: 5}, {Kind: "collect", T: 5}, {Kind: "close"}},
				} {
					explored(c14Program{Init: 2, Mode: 5, Threads: [][]agentOp{first, other}})
					explored(c14Program{Init: 3, Mode: 5, Threads: [][]agentOp{first, other}})
				}
			}
			// tables of several thousand transactions (where an implementation would be tempted to give the lock away in
			// the middle of a pass): Collect is still one atomic step against Stop / Process / Start of ids it has seen
			for _, n := range []int{4100, 8200} {
				for _, other := range [][]agentOp{
					{{Kind: "stop", ID: 4}, {Kind: "stop", ID: 4 + n - 1}},
					{{Kind: "stop", ID: 4 + n/2}, {Kind: "start", ID: 4 + n/2, T: 6}},
					{{Kind: "process", ID: 4 + 1}, {Kind: "stop", ID: 4 + n - 2}},
				} {
					explored(c14Program{Init: n, Mode: 0, Threads: [][]agentOp{{{Kind: "collect", T: 5}}, other}})
				}
			}
			// a table that once held more than 1024 transactions and is drained to empty by one call whose first
			// handler registers a new transaction (anything the agent does to its table "when it is empty" must look again)
			for _, other := range [][]agentOp{{{Kind: "start", ID: 3, T: 4}}, {{Kind: "stop", ID: 4 + 7}}} {
				explored(c14Program{Init: 1030, Mode: 4, Threads: [][]agentOp{{{Kind: "collect", T: 5}, {Kind: "stop", ID: 2}}, other}})
				explored(c14Program{Init: 1030, Mode: 4, Threads: [][]agentOp{{{Kind: "close"}}, other}})
			}
			// handler re-entering with Collect on the base programs of two threads x 1 operation
			for init := 1; init <= 3; init++ {
				for i := range c14Alphabet {
					for j := i; j < len(c14Alphabet); j++ {
						explored(c14Program{Init: init, Mode: 3, Threads: [][]agentOp{{c14Alphabet[i]}, {c14Alphabet[j]}}})
					}
				}
			}
			c.Extra("sum_distinct_outcome_signatures", float64(len(distinctOutcomes)))
			c.Extra("preemption_bound", float64(pb))
		},
		Replay: func(c *Ctx, p json.RawMessage) {
			var prog c14Program
			if err := json.Unmarshal(p, &prog); err != nil {
				c.Fail("%v", err)
			}
			_, finds, _ := c14Run(prog)(prog.Prefix)
			for _, f := range finds {
				c.Violation(f.Key, f.Detail, prog)
			}
		},
	}
}
