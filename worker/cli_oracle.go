//go:build vsched

package main

import (
	"bytes"
	"errors"
	"fmt"
	"os"
	"strings"
	"time"

	stun "github.com/pion/stun/v3"
	"github.com/pion/stun/v3/zzverif/sched"

	"verif/mc/explore"
)

// cliCheck evaluates every clause of C10 C11 C12 C15 on one execution. Keys
// are "<props>/<clause>[/<call-site class>]" where <props> lists the
// properties the clause belongs to.
func cliCheck(res *sched.Result, w *cliWorld) (finds []explore.Finding, outcome string) {
	add := func(key, format string, a ...interface{}) {
		finds = append(finds, explore.Finding{Key: key, Detail: fmt.Sprintf(format, a...)})
	}
	sc := w.sc
	switch res.Status {
	case sched.StatusDone:
	case sched.StatusDeadlock:
		doBlocked := false
		for _, b := range res.Blocked {
			if strings.Contains(b, "Cond.Wait") {
				doBlocked = true
			}
		}
		if doBlocked {
			add("C10,C15/do-never-returns", "Do is still blocked when nothing can move any more: %v; %s", res.Blocked, w.logString())
		} else {
			add("C10,C15/deadlock", "deadlock: %v; %s", res.Blocked, w.logString())
		}
		return finds, "deadlock"
	case sched.StatusDivergent:
		return nil, "divergent"
	case sched.StatusStuckOpen:
		return nil, "abandoned: a thread blocked outside the scheduler's control while another could move"
	default:
		// (a panic, a livelock or a runaway execution is every client property's business: nothing it promises holds afterwards)
		add("C10,C11,C12,C15/"+res.Status, "%s %v %s; %s", res.PanicVal, res.Blocked, res.Notes, w.logString())
		return finds, res.Status
	}
	if w.fatal != "" {
		add("harness", "%s", w.fatal)
		return finds, "fatal"
	}
	n := 7
	if sc.Opts.NoRetransmit {
		n = 0
	}
	closeInvoked := w.closeRets > 0
	// position of the successful Close return
	closeOK := -1
	for i, r := range w.log {
		if r.Kind == "close-ret" && !errors.Is(r.Err, stun.ErrClientClosed) && closeOK < 0 {
			closeOK = i
		}
	}
	decodes := func(d []byte) bool {
		m := new(stun.Message)
		if len(d) > 1024 {
			d = d[:1024]
		}
		m.Raw = append(m.Raw, d...)
		return m.Decode() == nil
	}
	// what a handler must see: the decode of exactly the delivered datagram
	wantContent := func(d []byte) string {
		m := new(stun.Message)
		if len(d) > 1024 {
			d = d[:1024]
		}
		m.Raw = append(m.Raw, d...)
		if m.Decode() != nil {
			return "?"
		}
		return msgContent(m)
	}
	for _, r := range w.log {
		if (r.Kind == "handler" || r.Kind == "fallback") && r.Data != nil && r.Attr != wantContent(r.Data) {
			add("C12/message-not-decode-of-datagram", "a handler saw a Message whose fields/attributes (%s) are not the decode of its own Raw bytes (%s); %s", clipS(r.Attr), clipS(wantContent(r.Data)), w.logString())
			break
		}
	}
	consumed := map[int]int{} // delivered datagram index -> times consumed
	findDelivered := func(data []byte) int {
		for i, d := range w.delivered {
			if bytes.Equal(d, data) {
				return i
			}
		}
		return -1
	}
	sig := make([]string, 0, len(w.insts))
	for idx, inst := range w.insts {
		if !inst.Started {
			continue
		}
		name := fmt.Sprintf("%s(%c)#%d", inst.Kind, 'A'+inst.Slot, idx)
		if inst.Kind == "start-after-close" {
			if !errors.Is(inst.RetErr, stun.ErrClientClosed) {
				add("C15/start-after-close", "Start after Close returned %v; %s", inst.RetErr, w.logString())
			}
			if inst.HandlerN > 0 {
				add("C15/handler-after-close", "handler of a Start issued after Close was invoked; %s", w.logString())
			}
			continue
		}
		if !inst.Returned {
			add("C10/call-never-returns", "%s never returned; %s", name, w.logString())
			continue
		}
		// writes attributed to this instance: a write belongs to the latest instance of its slot that was
		// issued before it and can have written at all (a Start rejected before its write never writes)
		var writes []obsRec
		var writePos []int
		if !sc.DupIDs {
			for p := inst.StartPos; p < len(w.log); p++ {
				r := w.log[p]
				if r.Kind != "write" || r.ID != inst.ID {
					continue
				}
				owner := -1
				for j, o := range w.insts {
					if o.Slot != inst.Slot || !o.Started || o.StartPos > p {
						continue
					}
					if o.Returned && o.RetAt < p {
						switch errClass(o.RetErr) {
						case "ErrTransactionExists", "ErrClientClosed", "ErrAgentClosed":
							continue
						}
					}
					owner = j
				}
				if owner == idx {
					writes = append(writes, r)
					writePos = append(writePos, p)
				}
			}
		}
		hArg := ""
		hPos := -1
		if inst.HandlerN > 0 {
			hPos = inst.HandlerAt[0]
			hr := w.log[hPos]
			hArg = errClass(hr.Err)
			if hr.Data != nil && hr.Err == nil {
				hArg = "response"
			}
		}
		sig = append(sig, fmt.Sprintf("%s:ret=%s:h=%d:%s:w=%d", inst.Kind, errClass(inst.RetErr), inst.HandlerN, hArg, len(writes)))
		// ---- C10 ----
		if inst.HandlerN > 1 {
			add("C10/handler-twice", "%s: handler invoked %d times; %s", name, inst.HandlerN, w.logString())
		}
		if inst.RetErr != nil && inst.HandlerN > 0 {
			site := "other"
			if rc := errClass(inst.RetErr); strings.Contains(rc, "write-error") {
				site = "start-write-failed" // Start's own write failed after the transaction had been completed elsewhere
			}
			add("C10/handler-after-start-error/"+site+"/handler="+hArg, "%s returned %v although its handler was invoked with %s; %s", name, inst.RetErr, hArg, w.logString())
		}
		if inst.RetErr == nil && inst.HandlerN == 0 && (sc.Epilogue != "" || closeInvoked) {
			ctx := "after-drain"
			if closeInvoked {
				ctx = "closed-in-flight"
			}
			add("C10/handler-missing/"+ctx, "%s returned nil but its handler was never invoked (%s); %s", name, ctx, w.logString())
		}
		if inst.Kind == "do" && inst.RetErr == nil && (inst.HandlerN != 1 || inst.HandlerDone < 0 || inst.HandlerDone > inst.RetAt) {
			add("C10/do-returned-before-handler", "%s returned nil at log position %d, handler invocations %d finished at %d; %s", name, inst.RetAt, inst.HandlerN, inst.HandlerDone, w.logString())
		}
		failedWrite := false
		for _, wr := range writes {
			if wr.Err != nil {
				failedWrite = true
			}
		}
		for _, hp := range inst.HandlerAt {
			hr := w.log[hp]
			cls := errClass(hr.Err)
			switch {
			case hr.Err == nil && hr.Data != nil:
				di := findDelivered(hr.Data)
				if hr.ID != inst.ID || len(hr.Data) < 20 || !bytes.Equal(hr.Data[8:20], inst.ID[:]) {
					add("C12,C10/wrong-handler", "%s (id %x) received the event of transaction %x (message id %x); %s", name, inst.ID, hr.ID, clip(hr.Data[8:min(20, len(hr.Data))]), w.logString())
				} else if di < 0 {
					add("C12,C10/message-not-datagram", "%s: event.Message.Raw %x is not a datagram that was delivered; %s", name, clip(hr.Data), w.logString())
				} else {
					consumed[di]++
				}
			case cls == "timeout":
				// transmission 0 happens "at Start": its deadline runs from the clock value Start read
				if len(writes) != n+1 && !sc.DupIDs {
					add("C11,C10/early-timeout", "%s: timeout reported after %d transmissions, the limit of %d retransmissions was not used up; %s", name, len(writes), n, w.logString())
				} else if !sc.DupIDs {
					base := inst.StartTime
					for _, wr := range writes {
						if wr.Thr != inst.Thr {
							base = wr.Time // last re-transmission
						}
					}
					if dl := base.Add(time.Duration(n+1) * inst.RTO); !hr.Time.After(dl) {
						key := "C11/early-timeout"
						if sc.Sequential {
							key = "C11,C10/early-timeout" // (C10: "with a timeout after the last retransmission"; decided where one thread moves the clock)
						}
						add(key, "%s: timeout at %v, not after the last deadline %v; %s", name, hr.Time.Sub(cliT0), dl.Sub(cliT0), w.logString())
					}
				}
			case strings.Contains(cls, "write-error"):
				if !failedWrite && !sc.DupIDs {
					add("C10/bad-argument/"+cls, "%s: handler got %s but no write of this transaction failed; %s", name, cls, w.logString())
				}
			case cls == "ErrClientClosed" || cls == "ErrAgentClosed" || strings.HasPrefix(cls, "StopErr(") && (strings.Contains(cls, "Closed")):
				if !closeInvoked {
					add("C10/bad-argument/"+cls, "%s: handler got a closed error but Close was never called; %s", name, w.logString())
				}
			case cls == "agent-start-error":
				if !w.agentStartFailed {
					add("C10/bad-argument/"+cls, "%s: handler got an agent start error that was never injected; %s", name, w.logString())
				}
			case cls == "ErrTransactionExists" && (sc.DupIDs || w.agentStartFailed):
			default:
				add("C10/bad-argument/"+cls, "%s: handler got %v; %s", name, hr.Err, w.logString())
			}
			if hr.ID != inst.ID {
				add("C12,C10/wrong-handler", "%s (id %x) received the event of transaction %x; %s", name, inst.ID, hr.ID, w.logString())
			}
		}
		// ---- C11 ----
		if !sc.DupIDs {
			for k, wr := range writes {
				if !bytes.Equal(wr.Data, inst.Raw) {
					add("C11/retransmit-bytes-differ", "%s: transmission %d carries %d bytes %x..., the message at Start was %d bytes %x...; %s", name, k, len(wr.Data), clip(wr.Data)[:min(24, len(wr.Data))], len(inst.Raw), inst.Raw[:min(24, len(inst.Raw))], w.logString())
					break
				}
			}
			if len(writes) > n+1 {
				add("C11/too-many-writes", "%s: %d transmissions, limit %d retransmissions; %s", name, len(writes), n, w.logString())
			}
			// timing: transmission 0 belongs to the caller's thread (deadline 0 runs from the clock value Start
			// read, whenever that thread gets to its write); re-transmissions are made by the collector's thread
			var retx []obsRec
			seenInitial := false
			for _, wr := range writes {
				if !seenInitial && wr.Thr == inst.Thr {
					seenInitial = true
					continue
				}
				retx = append(retx, wr)
			}
			base := inst.StartTime
			for k, wr := range retx {
				dl := base.Add(time.Duration(k+1) * inst.RTO)
				if !wr.Time.After(dl) {
					add("C11/early-retransmit", "%s: re-transmission %d at %v, but the previous transmission (at %v) may only be repeated after %v (rto %v); %s", name, k+1, wr.Time.Sub(cliT0), base.Sub(cliT0), dl.Sub(cliT0), inst.RTO, w.logString())
					break
				}
				base = wr.Time
			}
			// nothing more is written once the transaction has ended
			end := -1
			if hPos >= 0 {
				end = hPos
			}
			if inst.RetErr != nil && inst.RetAt >= 0 && (end < 0 || inst.RetAt < end) {
				end = inst.RetAt
			}
			if end >= 0 {
				for _, p := range writePos {
					if p <= end {
						continue
					}
					// a retransmission that was already under way when the transaction ended is concurrent with
					// the end, not after it: only a write whose tick began after the end counts
					begin := -1
					for q := p - 1; q >= 0; q-- {
						if w.log[q].Kind == "tick-begin" && w.log[q].Thr == w.log[p].Thr {
							begin = q
							break
						}
					}
					if begin > end {
						add("C11/write-after-end", "%s: a transmission at log position %d (tick began at %d) after the transaction ended at %d; %s", name, p, begin, end, w.logString())
						break
					}
				}
			}
		}
	}
	// a second client's writes carry that client's requests (the scratch pools are shared between clients)
	for _, r := range w.log {
		if r.Kind != "write2" {
			continue
		}
		okw := false
		for _, raw := range w.raw2 {
			if bytes.Equal(raw, r.Data) {
				okw = true
			}
		}
		if !okw {
			add("C11/retransmit-bytes-differ", "a write of the second client (%d bytes, id %x) is none of its requests; %s", len(r.Data), r.ID, w.logString())
			break
		}
	}
	// ---- C12: fallback handler and datagram accounting ----
	for _, r := range w.log {
		if r.Kind != "fallback" {
			continue
		}
		if errors.Is(r.Err, stun.ErrTransactionStopped) {
			add("C12/fallback-stopped", "fallback handler received ErrTransactionStopped; %s", w.logString())
		}
		if r.Data != nil {
			di := findDelivered(r.Data)
			if di < 0 {
				add("C12/message-not-datagram", "fallback handler got a message %x that is not a delivered datagram; %s", clip(r.Data), w.logString())
			} else {
				consumed[di]++
				if !decodes(w.delivered[di]) {
					add("C12/garbage-delivered", "an undecodable datagram reached the fallback handler; %s", w.logString())
				}
			}
		}
	}
	for di, cnt := range consumed {
		if cnt > 1 {
			add("C12/datagram-delivered-twice", "datagram %d (%x) reached %d handlers; %s", di, clip(w.delivered[di]), cnt, w.logString())
		}
		if !decodes(w.delivered[di]) {
			add("C12/garbage-delivered", "an undecodable datagram reached a handler; %s", w.logString())
		}
	}
	// any scenario: a message event that reached the FALLBACK handler although a transaction with its id had its request
	// on the wire before the datagram was delivered and was completed only after that fallback call (it was in flight
	// all the time in between)
	if !sc.DupIDs {
		for f, r := range w.log {
			if r.Kind != "fallback" || r.Data == nil || r.Err != nil || len(r.Data) < 20 {
				continue
			}
			dpos := -1
			for q := f - 1; q >= 0; q-- {
				if d := w.log[q]; d.Kind == "deliver" && d.ID == r.ID && bytes.Equal(w.delivered[d.N], r.Data) {
					dpos = q
					break
				}
			}
			if dpos < 0 {
				continue
			}
			for idx, inst := range w.insts {
				if inst.ID != r.ID || !inst.Called || (inst.Returned && inst.RetErr != nil) {
					continue
				}
				onWire := false
				for q := inst.CallPos; q < dpos; q++ {
					if wr := w.log[q]; wr.Kind == "write" && wr.Err == nil && wr.ID == inst.ID {
						onWire = true
						break
					}
				}
				if !onWire || len(inst.HandlerAt) == 0 || inst.HandlerAt[0] < f {
					continue
				}
				later := false // another instance of the same id started in between: its attribution is not decided here
				for j, o := range w.insts {
					if j != idx && o.ID == inst.ID && o.Called && o.CallPos > inst.CallPos {
						later = true
					}
				}
				if !later {
					// where the transaction was at that moment: Start still running / between a time-out and the
					// re-transmission it triggers (the table entry is taken out and put back) / anywhere else
					where := "other"
					switch {
					case !inst.Returned || inst.RetAt > f:
						where = "start-still-running"
					default:
						// a collector tick began after the last successful transmission of this request and before the
						// fallback call: the time-out handling (take out of the table, re-transmit or fail, put back or
						// complete) was under way
						for q := f - 1; q >= inst.CallPos; q-- {
							if w.log[q].Kind == "tick-begin" {
								where = "during-retransmission" // a collector tick began while this transaction existed
								break
							}
						}
						// ... or the tick was announced before this Start was issued and ran after it: the thread that
						// completed the transaction (after the fallback call) is a collector's
						if hp := inst.HandlerAt[0]; where == "other" {
							for q := 0; q < hp; q++ {
								if w.log[q].Kind == "tick-begin" && w.log[q].Thr == w.log[hp].Thr {
									where = "during-retransmission"
									break
								}
							}
						}
					}
					add("C12/response-went-to-fallback/"+where, "a response with the id of transaction #%d went to the fallback handler (log position %d) although the request was on the wire before the datagram was delivered (%d) and the transaction was completed only later (%d); %s", idx, f, dpos, inst.HandlerAt[0], w.logString())
				}
			}
		}
	}
	// a handler that the agent calls from inside Process(d), for the transaction d names, is being handed d: whatever
	// state the client is in (open, closing), the response that completes a transaction reaches its handler as the
	// response, not as an error that happens to end the transaction at the same moment
	for _, r := range w.log {
		if r.Kind != "handler" || r.During == nil {
			continue
		}
		if r.Err != nil || !bytes.Equal(r.Data, r.During) {
			add("C12/response-replaced-by-error", "the handler of transaction instance #%d was called from inside Process of the response %x, and was given err=%v message=%x instead of that response; %s", r.Inst, clip(r.During), r.Err, clip(r.Data), w.logString())
		}
	}
	if sc.Sequential {
		// sequential histories: every decodable datagram delivered before any Close has been read; it must have
		// reached the handler of the transaction that was in flight under its id, else the fallback handler (if set)
		firstClose := len(w.log)
		for i, r := range w.log {
			if r.Kind == "conn-close" || r.Kind == "collector-close" {
				firstClose = i
				break
			}
		}
		consumedBy := func(di int, inst int) bool {
			for _, r := range w.log {
				if r.Kind == "handler" && r.Inst == inst && r.Data != nil && bytes.Equal(r.Data, w.delivered[di]) {
					return true
				}
			}
			return false
		}
		// an undecodable datagram has no effect at all: in a sequential history (every event runs to quiescence) nothing
		// is written and no handler runs between its delivery and the next event
		if sc.Sequential {
			for pos, r := range w.log {
				if r.Kind != "deliver-garbage" || pos > firstClose {
					continue
				}
				for q := pos + 1; q < len(w.log); q++ {
					k := w.log[q].Kind
					if k == "ev" || k == "deliver-garbage" || k == "tick-begin" || k == "close-ret" {
						break
					}
					if k == "write" || k == "handler" || k == "fallback" {
						add("C12/undecodable-datagram-has-effects", "an undecodable datagram (%x) was followed by %s before the next event; %s", clip(w.delivered[r.N]), k, w.logString())
						break
					}
				}
			}
		}
		refused := func(d []byte) bool { // the (user-supplied) agent refused this very datagram: nobody gets it
			for _, q := range w.log {
				if q.Kind == "process-refused" && bytes.Equal(q.Data, d) {
					return true
				}
			}
			return false
		}
		for pos, r := range w.log {
			if r.Kind != "deliver" || pos > firstClose || !decodes(w.delivered[r.N]) || refused(w.delivered[r.N]) {
				continue
			}
			inflight := -1
			for idx, inst := range w.insts {
				if inst.ID != r.ID || (inst.Returned && inst.RetErr != nil) {
					continue
				}
				// in flight: Start has returned nil - or, Start still running, its request is on the wire already (a
				// response exists only because of that write: causality)
				started := inst.Returned && inst.RetAt <= pos
				if !started && !sc.DupIDs && inst.Called {
					for q := inst.CallPos; q < pos && q < len(w.log); q++ {
						if wr := w.log[q]; wr.Kind == "write" && wr.Err == nil && wr.ID == inst.ID {
							started = true
							break
						}
					}
				}
				if !started {
					continue
				}
				ended := false
				for _, hp := range inst.HandlerAt {
					if hp < pos {
						ended = true
					}
				}
				if !ended {
					inflight = idx
				}
			}
			switch {
			case inflight >= 0 && !consumedBy(r.N, inflight):
				add("C12/response-not-delivered", "a decodable %d-byte datagram with the id of the in-flight transaction #%d did not reach its handler; %s", len(w.delivered[r.N]), inflight, w.logString())
			case inflight < 0 && sc.Opts.Fallback && consumed[r.N] == 0:
				add("C12/datagram-lost", "a decodable datagram that matches no transaction did not reach the fallback handler: %x; %s", clip(w.delivered[r.N]), w.logString())
			}
		}
	}
	// ---- C15 ----
	okCloses := 0
	for i, r := range w.log {
		switch r.Kind {
		case "close-ret":
			if errors.Is(r.Err, stun.ErrClientClosed) {
				continue
			}
			okCloses++
			want := "nil"
			ce := sc.Opts.ConnCloseErr && !sc.Opts.NoConnClose
			if sc.Opts.AgentCloseErr || ce {
				a, c := "nil", "nil"
				if sc.Opts.AgentCloseErr {
					a = "inj-agent-close"
				}
				if ce {
					c = "inj-conn-close"
				}
				want = "CloseErr(agent=" + a + ",conn=" + c + ")"
			}
			if got := errClass(r.Err); got != want {
				add("C15/close-result", "Close returned %s, want %s; %s", got, want, w.logString())
			}
			if !r.ReaderDone {
				add("C15/reader-alive-after-close", "Close returned while the reader goroutine is still running; %s", w.logString())
			}
			cc, kc := 0, 0
			for _, q := range w.log[:i] {
				if q.Kind == "conn-close" {
					cc++
				}
				if q.Kind == "collector-close" {
					kc++
				}
			}
			wantCC := 1
			if sc.Opts.NoConnClose {
				wantCC = 0
			}
			if cc != wantCC {
				add("C15/conn-close-count", "connection closed %d times when Close returned, want %d; %s", cc, wantCC, w.logString())
			}
			if kc != 1 {
				add("C15/collector-not-closed", "collector closed %d times when Close returned; %s", kc, w.logString())
			}
		}
	}
	if closeInvoked && okCloses != 1 {
		add("C15/close-once", "%d of %d Close calls succeeded, want exactly one; %s", okCloses, w.closeRets, w.logString())
	}
	if w.succRan && (len(w.succEvents) == 0 || w.succEvents[0] != "message") {
		add("C12,C15/successor-on-the-same-connection-loses-a-response", "after Close (WithNoConnClose) a new client on the same connection started a transaction; its response was delivered to the connection, its handler saw %v (want the message first): something of the closed client still reads; %s", w.succEvents, w.logString())
	}
	if closeOK >= 0 {
		cc := 0
		for i, r := range w.log {
			if r.Kind == "conn-close" {
				cc++
			}
			if i <= closeOK {
				continue
			}
			switch r.Kind {
			case "handler", "fallback":
				add("C15/handler-after-close", "a handler was invoked after Close returned (log position %d > %d); %s", i, closeOK, w.logString())
			case "write":
				// calls that were invoked before Close returned are concurrent with it; only calls issued afterwards must not write
				if i >= w.endPos {
					add("C15/write-after-close", "a call issued after Close returned wrote to the connection; %s", w.logString())
				}
			case "indicate-ret", "do-after-close":
				if r.Inst == -2 && !errors.Is(r.Err, stun.ErrClientClosed) {
					add("C15/start-after-close", "%s after Close returned %v; %s", r.Kind, r.Err, w.logString())
				}
				// a scenario thread's Indicate that began after Close had returned (possibly while a redundant second
				// Close is running)
				if r.Kind == "indicate-ret" && r.Inst == -1 && r.N > closeOK && !errors.Is(r.Err, stun.ErrClientClosed) {
					add("C15/start-after-close", "Indicate that began (log position %d) after Close had returned (%d) returned %v; %s", r.N, closeOK, r.Err, w.logString())
				}
			}
		}
		for _, inst := range w.insts {
			if inst.Called && inst.CallPos > closeOK && inst.Returned && !errors.Is(inst.RetErr, stun.ErrClientClosed) && (inst.Kind == "start" || inst.Kind == "do") {
				add("C15/start-after-close", "%s(%c) that began (log position %d) after Close had returned (%d) returned %v; %s", inst.Kind, 'A'+inst.Slot, inst.CallPos, closeOK, inst.RetErr, w.logString())
			}
		}
		wantCC := 1
		if sc.Opts.NoConnClose {
			wantCC = 0
		}
		if cc != wantCC {
			add("C15/conn-close-count", "connection closed %d times in total, want %d; %s", cc, wantCC, w.logString())
		}
	}
	return finds, strings.Join(sig, " ")
}

func (w *cliWorld) logString() string {
	var sb strings.Builder
	sb.WriteString("log:")
	for i, r := range w.log {
		if i > 60 {
			sb.WriteString(" ...")
			break
		}
		switch r.Kind {
		case "write":
			fmt.Fprintf(&sb, " %d:write(%c,%dB,t=%v,%s)", i, slotOf(r.ID), len(r.Data), r.Time.Sub(cliT0), errClass(r.Err))
		case "handler":
			arg := errClass(r.Err)
			if r.Data != nil {
				arg = "msg"
			}
			fmt.Fprintf(&sb, " %d:handler#%d(%s,t=%v)", i, r.Inst, arg, r.Time.Sub(cliT0))
		case "fallback":
			fmt.Fprintf(&sb, " %d:fallback(%c,%s)", i, slotOf(r.ID), errClass(r.Err))
		case "close-ret":
			fmt.Fprintf(&sb, " %d:close#%d=%s", i, r.N, errClass(r.Err))
		default:
			fmt.Fprintf(&sb, " %d:%s", i, r.Kind)
			if r.Inst >= 0 {
				fmt.Fprintf(&sb, "#%d", r.Inst)
			}
			if r.Kind == "start-ret" || r.Kind == "do-ret" || r.Kind == "indicate-ret" || r.Kind == "do-after-close" {
				fmt.Fprintf(&sb, "=%s", errClass(r.Err))
			}
		}
	}
	return sb.String()
}

func slotOf(id [12]byte) rune {
	if id[4] == 0xEE {
		return '#'
	}
	for s := 0; s < 5; s++ {
		if cliID(s) == id {
			return rune('A' + s)
		}
	}
	if cliID(9) == id {
		return '?'
	}
	return '*'
}

// cliRunFunc adapts a scenario to the explorer, keeping only the findings of property prop.
func cliRunFunc(sc cliScenario, prop string) explore.RunFunc {
	return func(prefix []int) (*sched.Result, []explore.Finding, string) {
		s := sc
		s.Prefix = prefix
		res, w := runScenario(s)
		finds, outcome := cliCheck(res, w)
		if os.Getenv("CLI_LOG") != "" { // debugging aid for hand-made replays
			fmt.Fprintf(os.Stderr, "status=%s %s\nall findings: %v\n", res.Status, w.logString(), finds)
		}
		var mine []explore.Finding
		for _, f := range finds {
			props := f.Key
			if i := strings.Index(props, "/"); i >= 0 {
				props = props[:i]
			}
			if props == "harness" || strings.Contains(","+props+",", ","+prop+",") {
				// strip the property list, keep clause/class
				key := f.Key[strings.Index(f.Key, "/")+1:]
				if props == "harness" {
					key = "harness"
				}
				mine = append(mine, explore.Finding{Key: key, Detail: f.Detail})
			}
		}
		return res, mine, outcome
	}
}
