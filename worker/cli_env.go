//go:build vsched

package main

import (
	"bytes"
	"errors"
	"fmt"
	"hash/crc32"
	"io"
	"net"
	"os"
	"syscall"
	"time"

	stun "github.com/pion/stun/v3"
	"github.com/pion/stun/v3/zzverif/sched"
)

// Environment doubles and the scenario interpreter shared by C10 C11 C12 C15.

var (
	errInjectedWrite         = errors.New("injected write failure")
	errConnClosed            = errors.New("vconn: use of closed connection")
	errReadTimeout     error = &net.OpError{Op: "read", Net: "vconn", Err: os.ErrDeadlineExceeded} // a net.Error whose Timeout() is true, like a read deadline that expired
	errInjConnClose          = errors.New("injected connection close error")
	errInjAgentClose         = errors.New("injected agent close error")
	errInjAgentStart         = errors.New("injected agent start error")
	errInjAgentProcess       = errors.New("injected agent process error: message refused")
	// the same faults with errors whose IDENTITY means something elsewhere: closing a connection that is closed
	// already, an agent closed by its owner first, a write that runs into its deadline
	errInjConnCloseSentinel  error = &net.OpError{Op: "close", Net: "udp", Err: net.ErrClosed}
	errInjAgentCloseSentinel       = fmt.Errorf("agent: %w", stun.ErrAgentClosed)
	errInjectedWriteTimeout  error = &net.OpError{Op: "write", Net: "udp", Err: os.ErrDeadlineExceeded}
	// closing ran into a deadline (a TLS close-notify that the peer does not read): a net.Error with Timeout() true
	errInjConnCloseTimeout error = &net.OpError{Op: "close", Net: "tcp", Err: os.ErrDeadlineExceeded}
)

var cliT0 = time.Date(2024, 6, 1, 12, 0, 0, 0, time.UTC)

// cliOpts are the client options / environment configuration of a scenario.
type cliOpts struct {
	NoConnClose   bool  `json:"no_conn_close,omitempty"`
	Fallback      bool  `json:"fallback,omitempty"` // WithHandler
	NoRetransmit  bool  `json:"no_retransmit,omitempty"`
	RTO           int64 `json:"rto,omitempty"` // ns, 0 = default 300ms
	ConnCloseErr  bool  `json:"conn_close_err,omitempty"`
	AgentCloseErr bool  `json:"agent_close_err,omitempty"`
	MsgSize       []int `json:"msg_size,omitempty"` // per transaction slot, 0 = 20 bytes
	PoolFanout    bool  `json:"pool_fanout,omitempty"`
	Reentrant     bool  `json:"reentrant,omitempty"`     // handlers call back into the client (Indicate, Start, Close) when they get an error
	StallWrite    bool  `json:"stall_write,omitempty"`   // Write blocks until the connection is closed, then fails (TCP back pressure)
	SentinelErrs  bool  `json:"sentinel_errs,omitempty"` // the injected close errors wrap net.ErrClosed / ErrAgentClosed instead of being plain errors
	ClockOffset   int64 `json:"clock_offset,omitempty"`  // ns added to the start of the virtual clock (deadlines then fall off every round number)
	CloseTimeout  bool  `json:"close_timeout,omitempty"` // with ConnCloseErr: the connection's Close error is a net.Error time-out
	ClockPoints   bool  `json:"clock_points,omitempty"`  // Clock.Now is a scheduling point
	StaleFields   bool  `json:"stale_fields,omitempty"`  // the caller's message has Type / Length fields that are out of step with Raw when Start is called
	MaxAttempts   int   `json:"-"`
}

// cliEv is one scenario event.
type cliEv struct {
	K   string `json:"k"`
	I   int    `json:"i,omitempty"`
	Arg int    `json:"a,omitempty"`
}

func (e cliEv) String() string {
	switch e.K {
	case "resp":
		if e.Arg == 1 {
			return fmt.Sprintf("resp(%c,1024 bytes)", 'A'+e.I)
		}
		if e.Arg == 2 {
			return fmt.Sprintf("resp(%c,header only)", 'A'+e.I)
		}
		if e.Arg == 3 {
			return fmt.Sprintf("resp(%c,Data indication)", 'A'+e.I)
		}
		if e.Arg == 4 {
			return fmt.Sprintf("resp(%c,28 trailing bytes)", 'A'+e.I)
		}
		if e.Arg >= 6 && e.Arg <= 8 {
			return fmt.Sprintf("resp(%c,%s)", 'A'+e.I, []string{"with FINGERPRINT", "with FINGERPRINT and 4 trailing bytes", "with a wrong FINGERPRINT"}[e.Arg-6])
		}
		if e.Arg == 5 {
			return fmt.Sprintf("resp(%c,method 0x123)", 'A'+e.I)
		}
		return fmt.Sprintf("resp(%c)", 'A'+e.I)
	case "start", "do", "dup", "overwrite", "indicate":
		if e.I >= 10 {
			return fmt.Sprintf("%s(#%d)", e.K, e.I)
		}
		return fmt.Sprintf("%s(%c)", e.K, 'A'+e.I)
	case "unknown":
		if e.I >= 5 {
			return "unknown(" + []string{"CRC-32 twin of A", "xor-fold twin of A", "byte permutation of A"}[e.I-5] + ")"
		}
		return "unknown"
	case "tick":
		return "tick(" + []string{"at-deadline", "just-after-deadline", "far", "late: deadline+0.3 rto", "early: half-way to the deadline", "1 ns before the deadline"}[e.Arg] + ")"
	case "garbage":
		return "garbage(" + []string{"7 bytes", "bad cookie", "1025 bytes (truncated by the reader)", "attribute overrun", "valid header, body cut short", "attribute 0x0030 overruns", "attribute 0x803F overruns"}[e.Arg] + ")"
	case "failagent":
		return "failagent(" + []string{"injected error", "ErrTransactionExists"}[e.Arg] + ")"
	case "readerr":
		return "readerr(" + []string{"generic", "net.ErrClosed", "io.EOF", "ECONNREFUSED", "deadline exceeded", "ECONNRESET"}[e.Arg] + ")"
	case "setrto":
		return fmt.Sprintf("setrto(%dms)", e.Arg)
	case "clockback":
		return "the clock is set back by an hour"
	case "failprocess":
		return "the agent refuses the next message"
	}
	return e.K
}

// cliScenario is a program for the client harness.
type cliScenario struct {
	Opts       cliOpts   `json:"opts"`
	Setup      []cliEv   `json:"setup,omitempty"`       // executed sequentially before the threads start
	Threads    [][]cliEv `json:"threads"`               // thread 0 is the driver
	Sequential bool      `json:"sequential,omitempty"`  // the driver waits for quiescence after every event
	Epilogue   string    `json:"epilogue,omitempty"`    // "drain+close", "close", ""
	Probe      bool      `json:"probe,omitempty"`       // after the threads: Start(D),Start(E),resp(E),resp(D) before the epilogue
	TwoClients bool      `json:"two_clients,omitempty"` // a second client with its own connection/collector shares the package pools
	DupIDs     bool      `json:"dup_ids,omitempty"`     // scenario starts one id several times concurrently
	Prefix     []int     `json:"prefix,omitempty"`
	Pre        int       `json:"pre,omitempty"` // preemption bound used (for replay bookkeeping)
}

func (s cliScenario) String() string {
	o := ""
	if s.Opts.NoConnClose {
		o += " NoConnClose"
	}
	if s.Opts.Fallback {
		o += " WithHandler"
	}
	if s.Opts.NoRetransmit {
		o += " NoRetransmit"
	}
	if s.Opts.ConnCloseErr {
		o += " connCloseErr"
	}
	if s.Opts.AgentCloseErr {
		o += " agentCloseErr"
	}
	if s.Opts.StallWrite {
		o += " stalledWrites"
	}
	if s.Opts.CloseTimeout {
		o += " connCloseTimesOut"
	}
	if s.Opts.StaleFields {
		o += " staleTypeAndLengthFields"
	}
	if s.Opts.Reentrant {
		o += " reentrantHandlers"
	}
	if s.Opts.RTO != 0 {
		o += fmt.Sprintf(" rto=%v", time.Duration(s.Opts.RTO))
	}
	if len(s.Opts.MsgSize) > 0 {
		o += fmt.Sprintf(" sizes=%v", s.Opts.MsgSize)
	}
	str := "[" + o + " ]"
	if len(s.Setup) > 0 {
		str += fmt.Sprintf(" setup:%v", s.Setup)
	}
	for i, t := range s.Threads {
		str += fmt.Sprintf(" T%d:%v", i, t)
	}
	if s.Sequential {
		str += " sequential"
	}
	if s.Probe {
		str += " +probe"
	}
	return str + " epilogue=" + s.Epilogue
}

// ---- observation log ----

type obsRec struct {
	Kind string // write handler fallback start-ret do-ret close-ret conn-close collector-close indicate-ret
	Inst int    // transaction instance (handler, start-ret, do-ret), -1 otherwise
	Err  error
	Data []byte // write bytes / handler message raw
	Attr string // handler/fallback: rendering of event.Message's Type, Length, TransactionID and attribute list
	ID   [12]byte
	Time time.Time
	N    int // close-ret: which Close call
	Thr  int // scheduler thread that produced the record
	// handler: the datagram whose Process call this handler was called from (same thread, first matching handler call
	// inside that Process), nil if it was not called from inside a Process
	During []byte
	// reader/collector liveness sampled at close-ret
	ReaderDone bool
}

type txInst struct {
	Slot        int
	ID          [12]byte
	Kind        string // start / do
	Raw         []byte // snapshot of msg.Raw when Start was called
	RTO         time.Duration
	StartTime   time.Time
	StartPos    int  // log position when the call was issued
	CallPos     int  // log position when the library call began (after the scheduling point in front of it)
	Called      bool // CallPos is set
	Thr         int  // scheduler thread that issued the call
	Started     bool // call issued
	Returned    bool
	RetErr      error
	HandlerN    int
	HandlerAt   []int // log positions
	HandlerDone int   // log position when (last) handler invocation finished, -1
	RetAt       int   // log position of return
}

type cliWorld struct {
	processing map[int]*procCall
	sc         cliScenario
	log        []obsRec
	insts      []*txInst
	conn       *vConn
	clock      *vClock
	coll       *vCollector
	agent      *vAgent
	client     *stun.Client
	msgs       map[int]*stun.Message // per slot, the caller's message
	// deliveries the network performed: raw datagrams
	delivered        [][]byte
	closeRets        int
	fatal            string
	rtoNow           time.Duration
	endPos           int
	agentStartFailed bool
	// second client (shares the package-level pools; it has its own clock, so that the first client's time only
	// moves with its own collector)
	clock2  *vClock
	client2 *stun.Client
	conn2   *vConn
	coll2   *vCollector
	agent2  *vAgent
	raw2    map[int][]byte // slot -> request bytes of client 2
	// successor: with WithNoConnClose the connection is the caller's; after Close it goes on using it with a new client
	muted      bool
	succRan    bool
	succEvents []string
}

func (w *cliWorld) rec(r obsRec) int {
	if w.muted {
		return len(w.log) - 1 // the successor client's traffic is judged by its own clause, not by this log
	}
	r.Time = w.clock.now
	r.Thr = sched.CurrentID()
	w.log = append(w.log, r)
	return len(w.log) - 1
}

// ---- doubles ----

type vClock struct {
	now    time.Time
	points bool
}

// Now: reading the clock is a call into the environment (a user-supplied Clock may take its time): with
// cliOpts.ClockPoints the other threads may run while a thread is in it.
func (c *vClock) Now() time.Time {
	if c.points {
		sched.Point("clock.Now", nil)
	}
	return c.now
}

type vConn struct {
	w         *cliWorld
	readErrs  map[int]error // inbox position marker -> error (an inbox item of length 0 with an entry here is a read error)
	inbox     [][]byte
	closed    bool
	closeN    int
	failNext  bool
	failKind  int               // 0 plain error, 1 a net.Error that reports Timeout()
	written   map[[12]byte]bool // ids carried by a successful write (causality for responses)
	idleTimeo bool              // Read returns a timeout when nothing else can move (NoConnClose scenarios)
}

func (c *vConn) Read(p []byte) (int, error) {
	sched.PointDyn("conn.Read", func() bool { return len(c.inbox) > 0 || c.closed || c.idleTimeo },
		func() bool { return len(c.inbox) == 0 })
	if len(c.inbox) > 0 {
		d := c.inbox[0]
		c.inbox = c.inbox[1:]
		if len(d) == 2 && d[0] == 0xEE { // a scripted read error
			return 0, cliReadErr(int(d[1]))
		}
		return copy(p, d), nil // like UDP: the datagram is truncated to the buffer
	}
	if c.closed {
		return 0, errConnClosed
	}
	return 0, errReadTimeout
}

func (c *vConn) Write(p []byte) (int, error) {
	if c.w.sc.Opts.StallWrite {
		sched.Point("conn.Write(stalled)", func() bool { return c.closed })
	} else {
		sched.Point("conn.Write", nil)
	}
	var err error
	switch {
	case c.closed:
		err = errConnClosed
	case c.failNext:
		c.failNext = false
		err = errInjectedWrite
		if c.failKind == 1 {
			err = errInjectedWriteTimeout
		}
	}
	kind := "write"
	if c == c.w.conn2 {
		kind = "write2"
	}
	r := obsRec{Kind: kind, Inst: -1, Err: err, Data: append([]byte(nil), p...)}
	if len(p) >= 20 {
		copy(r.ID[:], p[8:20])
	}
	c.w.rec(r)
	if err != nil {
		return 0, err
	}
	if len(p) >= 20 {
		c.written[r.ID] = true
	}
	return len(p), nil
}

func (c *vConn) Close() error {
	sched.Point("conn.Close", nil)
	c.closeN++
	c.closed = true
	c.w.rec(obsRec{Kind: "conn-close", Inst: -1})
	if c.closeN > 1 {
		return errConnClosed // a second Close finds the connection closed
	}
	if c.w.sc.Opts.ConnCloseErr {
		if c.w.sc.Opts.CloseTimeout {
			return errInjConnCloseTimeout
		}
		if c.w.sc.Opts.SentinelErrs {
			return errInjConnCloseSentinel
		}
		return errInjConnClose
	}
	return nil
}

type vCollector struct {
	w        *cliWorld
	f        func(time.Time)
	closed   bool
	closeN   int
	inFlight int
	started  int
}

func (v *vCollector) Start(rate time.Duration, f func(now time.Time)) error {
	v.f = f
	v.started++
	return nil
}

// Close waits for a tick in flight, like tickerCollector.Close waits for its goroutine.
func (v *vCollector) Close() error {
	v.closed = true
	sched.Point("collector.Close", func() bool { return v.inFlight == 0 })
	v.closeN++
	v.w.rec(obsRec{Kind: "collector-close", Inst: -1})
	return nil
}

// tick advances the clock to t and calls the collect function, unless the collector is closed.
func (v *vCollector) tick(t time.Time) {
	sched.Point("tick", nil)
	if v.closed || v.f == nil {
		return
	}
	if t.After(v.w.clock.now) {
		v.w.clock.now = t
	}
	v.inFlight++
	defer func() { v.inFlight-- }()
	v.f(v.w.clock.now)
}

// vAgent delegates to the real Agent and records deadlines.
type vAgent struct {
	w           *cliWorld
	a           *stun.Agent
	deadlines   map[[12]byte]time.Time
	failProcess bool // the next Process is refused with an error that is not ErrAgentClosed
	failStart   bool // the next Start fails (a ClientAgent is user-supplied: its Start may return an error)
	failKind    int
}

func (a *vAgent) Process(m *stun.Message) error {
	if a.failProcess {
		// a user-supplied agent may refuse a message (a filter, a rate limit): the message is not processed
		a.failProcess = false
		a.w.rec(obsRec{Kind: "process-refused", Inst: -1, Data: append([]byte(nil), m.Raw...)})
		return errInjAgentProcess
	}
	// what the agent calls back from inside this Process call is caused by this datagram
	if a.w.processing == nil {
		a.w.processing = map[int]*procCall{}
	}
	tid := sched.CurrentID()
	outer := a.w.processing[tid]
	a.w.processing[tid] = &procCall{data: append([]byte(nil), m.Raw...), id: m.TransactionID}
	err := a.a.Process(m)
	if outer != nil {
		a.w.processing[tid] = outer
	} else {
		delete(a.w.processing, tid)
	}
	return err
}

// procCall is a Process call in progress on one scheduler thread.
type procCall struct {
	data []byte
	id   [12]byte
	used bool
}

func (a *vAgent) Close() error {
	err := a.a.Close()
	if err == nil && a.w.sc.Opts.AgentCloseErr {
		if a.w.sc.Opts.SentinelErrs {
			return errInjAgentCloseSentinel
		}
		return errInjAgentClose
	}
	return err
}
func (a *vAgent) Start(id [stun.TransactionIDSize]byte, deadline time.Time) error {
	if a.failStart {
		a.failStart = false
		a.w.agentStartFailed = true
		if a.failKind == 1 {
			return stun.ErrTransactionExists // a user-supplied agent may refuse with any error, also this one
		}
		return errInjAgentStart
	}
	err := a.a.Start(id, deadline)
	if err == nil {
		a.deadlines[id] = deadline
	}
	return err
}
func (a *vAgent) Stop(id [stun.TransactionIDSize]byte) error { return a.a.Stop(id) }

// StopWithError: the wrapper offers everything the wrapped Agent offers (a client may look for optional methods).
func (a *vAgent) StopWithError(id [stun.TransactionIDSize]byte, err error) error {
	return a.a.StopWithError(id, err)
}
func (a *vAgent) Collect(t time.Time) error {
	err := a.a.Collect(t)
	for id, d := range a.deadlines {
		if d.Before(t) {
			delete(a.deadlines, id)
		}
	}
	return err
}
func (a *vAgent) SetHandler(h stun.Handler) error { return a.a.SetHandler(h) }

// nextDeadline returns the earliest recorded deadline (zero if none).
func (a *vAgent) nextDeadline() (time.Time, bool) {
	var best time.Time
	ok := false
	for _, d := range a.deadlines {
		if !ok || d.Before(best) {
			best, ok = d, true
		}
	}
	return best, ok
}

// cliReadErr: the errors a connection's Read may report without being closed.
func cliReadErr(kind int) error {
	switch kind {
	case 1:
		return net.ErrClosed
	case 2:
		return io.EOF
	case 3:
		return &net.OpError{Op: "read", Net: "udp", Err: syscall.ECONNREFUSED} // not Temporary(), not Timeout()
	case 4:
		return os.ErrDeadlineExceeded
	case 5:
		return &net.OpError{Op: "read", Net: "udp", Err: os.NewSyscallError("recvfrom", syscall.ECONNRESET)}
	}
	return errors.New("vconn: injected read error")
}

// ---- ids and messages ----

// cliID: ids that collide as hard as possible (one bit apart in byte 0 / byte 11).
func cliID(slot int) (id [12]byte) {
	id = [12]byte{0x40, 0x11, 0x22, 0x33, 0x44, 0x55, 0x66, 0x77, 0x88, 0x99, 0xaa, 0xbb}
	switch slot {
	case 1:
		id[0] ^= 0x01
	case 2:
		id[11] ^= 0x01
	case 3:
		id[5] ^= 0x10
	case 4:
		id[6] ^= 0x10
	case 5: // ids a digest of A would collide with: same CRC-32 ...
		for i := 0; i < 8; i++ {
			id[i] ^= 0xA5
		}
		want := crc32.ChecksumIEEE(func() []byte { a := cliID(0); return a[:] }())
		b := id[:]
		cliForceCRC32(b, want)
	case 6: // ... equal under an xor-fold of the second and third word
		for i := 0; i < 4; i++ {
			id[4+i] ^= []byte{0x80, 0x01, 0x00, 0x7F}[i]
			id[8+i] ^= []byte{0x80, 0x01, 0x00, 0x7F}[i]
		}
	case 7: // ... the same bytes in another order
		id[0], id[11] = id[11], id[0]
		id[3], id[4] = id[4], id[3]
	case 8: // id used by re-entrant handlers
		id[2] ^= 0xff
	case 9: // unknown id
		id[3] ^= 0xff
	}
	if slot >= 10 {
		id[1], id[2], id[4] = byte(slot), byte(slot>>8), 0xEE
	}
	return
}

// cliForceCRC32 rewrites the last 4 bytes of b so that its CRC-32 (IEEE) is want.
func cliForceCRC32(b []byte, want uint32) {
	tbl := crc32.IEEETable
	n := len(b) - 4
	reg := ^crc32.ChecksumIEEE(b[:n])
	var idx [4]int
	r := ^want
	for i := 3; i >= 0; i-- {
		for t := 0; t < 256; t++ {
			if tbl[t]>>24 == r>>24 {
				idx[i] = t
				r = (r ^ tbl[t]) << 8
				break
			}
		}
	}
	for i := 0; i < 4; i++ {
		b[n+i] = byte(reg) ^ byte(idx[i])
		reg = reg>>8 ^ tbl[idx[i]]
	}
	if crc32.ChecksumIEEE(b) != want {
		panic("cliForceCRC32 failed")
	}
}

func cliRequest(slot, size int) *stun.Message {
	m := new(stun.Message)
	m.TransactionID = cliID(slot)
	m.Type = stun.BindingRequest
	m.WriteHeader()
	if size > 24 {
		pad := make([]byte, size-24)
		for i := range pad {
			pad[i] = byte(i*31 + slot)
		}
		m.Add(stun.AttrData, pad) // value length chosen so that the message is exactly `size` bytes when size%4==0
	}
	return m
}

func cliResponse(slot int, variant int) []byte { return cliResponseSized(slot, variant, 0) }

// cliResponseSized: size 1 = a response of exactly 1024 bytes (the client's read buffer).
func cliResponseSized(slot int, variant int, size int) []byte {
	m := new(stun.Message)
	m.TransactionID = cliID(slot)
	m.Type = stun.BindingSuccess
	if size == 3 {
		m.Type = stun.NewType(stun.MethodData, stun.ClassIndication) // any message with the id belongs to the transaction
	}
	if size == 5 {
		m.Type = stun.NewType(stun.Method(0x123), stun.ClassSuccessResponse) // a method outside the registered range
	}
	m.WriteHeader()
	if size == 2 {
		// a header-only response (no attributes): distinct datagrams differ in the two leading type bits only
		raw := append([]byte(nil), m.Raw...)
		raw[0] |= byte(variant%4) << 6
		return raw
	}
	m.Add(stun.AttrSoftware, []byte(fmt.Sprintf("resp-%d-%d", slot, variant)))
	if size == 1 {
		m.Add(stun.AttrData, make([]byte, 1024-len(m.Raw)-4))
		if len(m.Raw) != 1024 {
			panic("cliResponseSized: not 1024 bytes")
		}
	}
	if size >= 6 && size <= 8 {
		// 6: the response carries a (correct) FINGERPRINT; 7: and 4 more bytes behind the message; 8: a FINGERPRINT
		// whose value is wrong (the client does not check fingerprints: the message is the transaction's all the same)
		_ = stun.Fingerprint.AddTo(m)
		raw := append([]byte(nil), m.Raw...)
		if size == 7 {
			raw = append(raw, 0xDE, 0xAD, 0xBE, 0xEF)
		}
		if size == 8 {
			raw[len(raw)-1] ^= 0x55
		}
		return raw
	}
	if size == 4 {
		// the datagram carries 28 more bytes behind the message (padding of a lower layer, a second message): Decode
		// tolerates them, the message is delivered
		return append(append([]byte(nil), m.Raw...), bytes.Repeat([]byte{0x5A}, 28)...)
	}
	return append([]byte(nil), m.Raw...)
}

func cliGarbage(kind int) []byte {
	switch kind {
	case 0:
		return []byte{1, 2, 3, 4, 5, 6, 7}
	case 1:
		b := cliResponse(0, 99)
		b[4] ^= 0xff
		return b
	case 2:
		m := new(stun.Message)
		m.TransactionID = cliID(0)
		m.Type = stun.BindingSuccess
		m.WriteHeader()
		m.Add(stun.AttrData, make([]byte, 1001)) // 20+4+1004 = 1028 > 1024: truncated by the reader => undecodable
		return append([]byte(nil), m.Raw...)
	case 4: // a well-formed header that announces more body than the datagram carries (total still below the read buffer)
		b := cliResponse(0, 97)
		return b[:len(b)-8]
	case 5, 6: // a valid header and one attribute that overruns the message, of a type the library has no name for
		b := cliResponse(0, 96)
		b[20], b[21] = []byte{0x00, 0x80}[kind-5], []byte{0x30, 0x3F}[kind-5]
		b[23] = 0x7f // header, cookie and message length are right; the attribute announces more than the message holds
		return b
	default:
		b := cliResponse(0, 98)
		b[23] = 0x7f
		return b
	}
}

// ---- interpreter ----

func errClass(err error) string {
	switch {
	case err == nil:
		return "nil"
	case errors.Is(err, errInjAgentCloseSentinel) && err == errInjAgentCloseSentinel:
		return "inj-agent-close"
	case err == errInjConnCloseSentinel, err == errInjConnCloseTimeout:
		return "inj-conn-close"
	case err == errInjectedWriteTimeout:
		return "write-error"
	case errors.Is(err, stun.ErrClientClosed):
		return "ErrClientClosed"
	case errors.Is(err, stun.ErrAgentClosed):
		return "ErrAgentClosed"
	case errors.Is(err, stun.ErrTransactionTimeOut):
		return "timeout"
	case errors.Is(err, stun.ErrTransactionExists):
		return "ErrTransactionExists"
	case errors.Is(err, stun.ErrTransactionStopped):
		return "stopped"
	case errors.Is(err, errInjectedWrite):
		return "write-error"
	case errors.Is(err, errInjAgentStart):
		return "agent-start-error"
	case errors.Is(err, errConnClosed):
		return "conn-closed-write-error"
	}
	var se stun.StopErr
	if errors.As(err, &se) {
		return "StopErr(" + errClass(se.Cause) + ";" + errClass(se.Err) + ")"
	}
	var ce stun.CloseErr
	if errors.As(err, &ce) {
		return "CloseErr(agent=" + errClass(ce.AgentErr) + ",conn=" + errClass(ce.ConnectionErr) + ")"
	}
	if errors.Is(err, errInjAgentClose) {
		return "inj-agent-close"
	}
	if errors.Is(err, errInjConnClose) {
		return "inj-conn-close"
	}
	return "other:" + err.Error()
}

// msgContent renders what a handler can see of a Message besides Raw.
func msgContent(m *stun.Message) string {
	s := fmt.Sprintf("%v|%d|%x|", m.Type, m.Length, m.TransactionID)
	for _, a := range m.Attributes {
		s += fmt.Sprintf("%x:%d:%x,", uint16(a.Type), a.Length, a.Value)
	}
	return s
}

func (w *cliWorld) handlerFor(inst *txInst, idx int) stun.Handler {
	return func(e stun.Event) {
		sched.Point("handler", nil)
		r := obsRec{Kind: "handler", Inst: idx, Err: e.Error, ID: e.TransactionID}
		if e.Message != nil {
			r.Data = append([]byte(nil), e.Message.Raw...)
			r.Attr = msgContent(e.Message)
		}
		if pc := w.processing[sched.CurrentID()]; pc != nil && !pc.used && pc.id == e.TransactionID {
			pc.used = true
			r.During = pc.data
		}
		pos := w.rec(r)
		inst.HandlerN++
		inst.HandlerAt = append(inst.HandlerAt, pos)
		if w.sc.Opts.Reentrant && e.Error != nil {
			// e.g. a retry-on-failure handler
			// (not Close: a handler running on the collector's goroutine that calls Close waits for itself, by design)
			_ = w.client.Indicate(cliRequest(9, 20))
			_ = w.client.Start(cliRequest(8, 20), func(stun.Event) {})
			if errors.Is(e.Error, stun.ErrClientClosed) || errors.Is(e.Error, stun.ErrAgentClosed) {
				// told that the client is closing (these events come from Close itself): a handler that "makes sure" and
				// closes the client gets ErrClientClosed
				_ = w.client.Close()
			}
		}
		sched.Point("handler-return", nil)
		inst.HandlerDone = len(w.log)
	}
}

func (w *cliWorld) newInst(slot int, kind string) (*txInst, int) {
	inst := &txInst{Slot: slot, ID: cliID(slot), Kind: kind, HandlerDone: -1, RetAt: -1, StartPos: len(w.log)}
	w.insts = append(w.insts, inst)
	return inst, len(w.insts) - 1
}

func (w *cliWorld) msgFor(slot int) *stun.Message {
	size := 20
	if slot < len(w.sc.Opts.MsgSize) && w.sc.Opts.MsgSize[slot] > 0 {
		size = w.sc.Opts.MsgSize[slot]
	}
	m := cliRequest(slot, size)
	if w.sc.Opts.StaleFields {
		// fields assigned without encoding them: Raw is what goes out
		m.Type = stun.MessageType{Method: stun.MethodAllocate, Class: stun.ClassIndication}
		m.Length += 8
		m.TransactionID[11] ^= 0xFF // (the client files the transaction under the field; what goes out is Raw)
	}
	w.msgs[slot] = m
	return m
}

// do executes one event in the calling thread.
func (w *cliWorld) do(ev cliEv, quiesce bool) {
	c := w.client
	if quiesce && ev.K != "garbage" {
		w.rec(obsRec{Kind: "ev", Inst: -1}) // event boundary of a sequential history
	}
	switch ev.K {
	case "start":
		inst, idx := w.newInst(ev.I, "start")
		m := w.msgFor(ev.I)
		inst.Raw = append([]byte(nil), m.Raw...)
		inst.RTO = w.rtoNow
		inst.StartTime = w.clock.now
		inst.Started = true
		inst.Thr = sched.CurrentID()
		sched.Point("invoke", nil)
		inst.CallPos, inst.Called = len(w.log), true
		err := c.Start(m, w.handlerFor(inst, idx))
		inst.Returned, inst.RetErr = true, err
		inst.RetAt = w.rec(obsRec{Kind: "start-ret", Inst: idx, Err: err})
	case "do":
		inst, idx := w.newInst(ev.I, "do")
		m := w.msgFor(ev.I)
		inst.Raw = append([]byte(nil), m.Raw...)
		inst.RTO = w.rtoNow
		inst.StartTime = w.clock.now
		inst.Started = true
		h := w.handlerFor(inst, idx)
		body := func() {
			inst.Thr = sched.CurrentID()
			sched.Point("invoke", nil)
			inst.CallPos, inst.Called = len(w.log), true
			err := c.Do(m, func(e stun.Event) { h(e) })
			inst.Returned, inst.RetErr = true, err
			inst.RetAt = w.rec(obsRec{Kind: "do-ret", Inst: idx, Err: err})
		}
		if quiesce {
			sched.Spawn(fmt.Sprintf("do%d", idx), body) // Do blocks: it gets its own thread in sequential histories
		} else {
			body()
		}
	case "indicate":
		m := cliRequest(ev.I, 20)
		sched.Point("invoke", nil)
		callPos := len(w.log)
		err := c.Indicate(m)
		w.rec(obsRec{Kind: "indicate-ret", Inst: -1, Err: err, ID: m.TransactionID, N: callPos})
	case "resp", "dup":
		// causality: a response exists only after a successful write carrying the id; if no such
		// write ever happens the response is never sent (the wait gives up when nothing else can move)
		if quiesce {
			if !w.conn.written[cliID(ev.I)] {
				break
			}
		} else {
			sched.PointDyn("net", nil, func() bool { return !w.conn.written[cliID(ev.I)] })
			if !w.conn.written[cliID(ev.I)] {
				break
			}
		}
		d := cliResponseSized(ev.I, len(w.delivered), ev.Arg)
		w.rec(obsRec{Kind: "deliver", Inst: -1, N: len(w.delivered), ID: cliID(ev.I)})
		w.delivered = append(w.delivered, d)
		w.conn.inbox = append(w.conn.inbox, d)
	case "unknown":
		sched.Point("net", nil)
		slot := 9
		if ev.I >= 5 && ev.I <= 7 {
			slot = ev.I // an id that is not in flight but is a "twin" of A under some digest
		}
		d := cliResponseSized(slot, len(w.delivered), ev.Arg)
		w.rec(obsRec{Kind: "deliver", Inst: -1, N: len(w.delivered), ID: cliID(slot)})
		w.delivered = append(w.delivered, d)
		w.conn.inbox = append(w.conn.inbox, d)
	case "garbage":
		sched.Point("net", nil)
		d := cliGarbage(ev.Arg)
		w.rec(obsRec{Kind: "deliver-garbage", Inst: -1, N: len(w.delivered)})
		w.delivered = append(w.delivered, d)
		w.conn.inbox = append(w.conn.inbox, d)
	case "tick":
		t := w.clock.now
		switch ev.Arg {
		case 5: // the last instant at which nothing may happen yet
			if d, ok := w.agent.nextDeadline(); ok && d.Add(-time.Nanosecond).After(t) {
				t = d.Add(-time.Nanosecond)
			}
		case 4: // the collector fires between deadlines (what the built-in ticker does most of the time)
			if d, ok := w.agent.nextDeadline(); ok && d.After(t) {
				t = t.Add(d.Sub(t) / 2)
			} else {
				t = t.Add(time.Millisecond)
			}
		case 0, 1, 3:
			if d, ok := w.agent.nextDeadline(); ok {
				t = d
				if ev.Arg == 1 {
					t = d.Add(time.Nanosecond)
				}
				if ev.Arg == 3 { // a late collector: the deadline passed 0.3 rto ago
					t = d.Add(w.rtoNow * 3 / 10)
				}
			} else {
				t = t.Add(time.Millisecond)
			}
		default:
			t = t.Add(time.Hour)
		}
		w.rec(obsRec{Kind: "tick-begin", Inst: -1})
		w.coll.tick(t)
	case "start2":
		m := cliRequest(ev.I, 3000)
		w.raw2[ev.I] = append([]byte(nil), m.Raw...)
		sched.Point("invoke", nil)
		_ = w.client2.Start(m, func(stun.Event) {})
	case "tick2":
		t := w.clock2.now
		if d, ok := w.agent2.nextDeadline(); ok {
			t = d.Add(time.Nanosecond)
		}
		sched.Point("tick2", nil)
		if !w.coll2.closed && w.coll2.f != nil {
			if t.After(w.clock2.now) {
				w.clock2.now = t
			}
			w.coll2.inFlight++
			w.coll2.f(w.clock2.now)
			w.coll2.inFlight--
		}
	case "readerr":
		sched.Point("net", nil)
		w.conn.inbox = append(w.conn.inbox, []byte{0xEE, byte(ev.Arg)})
	case "failwrite":
		w.conn.failNext = true
		w.conn.failKind = ev.Arg
	case "failagent":
		w.agent.failStart = true
		w.agent.failKind = ev.Arg
	case "close":
		sched.Point("invoke", nil)
		n := w.closeRets
		w.closeRets++
		err := c.Close()
		w.rec(obsRec{Kind: "close-ret", Inst: -1, Err: err, N: n, ReaderDone: sched.LiveDaemons() == 0})
	case "setrto":
		w.rtoNow = time.Duration(ev.Arg) * time.Millisecond
		c.SetRTO(w.rtoNow)
	case "failprocess":
		w.agent.failProcess = true
	case "clockback":
		// the caller's clock is a wall clock: it is stepped back (NTP correction, VM restore). Deadlines of
		// transactions started from now on are taken from the new time
		w.clock.now = w.clock.now.Add(-time.Hour)
	case "overwrite":
		// the caller reuses its message after Start: scribble, Reset and rebuild something else
		if m := w.msgs[ev.I]; m != nil {
			for i := range m.Raw {
				m.Raw[i] = 0xEE
			}
			m.Reset()
			_ = m.Build(stun.BindingSuccess, stun.NewTransactionIDSetter([12]byte{0xEE}), stun.NewSoftware("caller reused this buffer"))
		}
	default:
		w.fatal = "unknown event " + ev.K
	}
	if quiesce {
		sched.Quiesce()
	}
}

// runScenario executes sc once under the scheduler.
func runScenario(sc cliScenario) (*sched.Result, *cliWorld) {
	w := &cliWorld{sc: sc, msgs: map[int]*stun.Message{}}
	res := sched.Run(sched.Config{Prefix: sc.Prefix, PoolFanout: sc.Opts.PoolFanout, MapFanout: true, MaxSteps: 50000}, func() {
		w.clock = &vClock{now: cliT0.Add(time.Duration(sc.Opts.ClockOffset)), points: sc.Opts.ClockPoints}
		w.conn = &vConn{w: w, written: map[[12]byte]bool{}, idleTimeo: sc.Opts.NoConnClose}
		w.coll = &vCollector{w: w}
		w.agent = &vAgent{w: w, a: stun.NewAgent(nil), deadlines: map[[12]byte]time.Time{}}
		w.rtoNow = 300 * time.Millisecond
		opts := []stun.ClientOption{stun.WithAgent(w.agent), stun.WithClock(w.clock), stun.WithCollector(w.coll)}
		if sc.Opts.RTO != 0 {
			w.rtoNow = time.Duration(sc.Opts.RTO)
			opts = append(opts, stun.WithRTO(w.rtoNow))
		}
		if sc.Opts.NoRetransmit {
			opts = append(opts, stun.WithNoRetransmit)
		}
		if sc.Opts.NoConnClose {
			opts = append(opts, stun.WithNoConnClose())
		}
		if sc.Opts.Fallback {
			opts = append(opts, stun.WithHandler(func(e stun.Event) {
				r := obsRec{Kind: "fallback", Inst: -1, Err: e.Error, ID: e.TransactionID}
				if e.Message != nil {
					r.Data = append([]byte(nil), e.Message.Raw...)
					r.Attr = msgContent(e.Message)
				}
				w.rec(r)
				if sc.Opts.Reentrant {
					// the fallback handler answers what it is handed: it calls back into the client
					_ = w.client.Indicate(cliRequest(9, 20))
					_ = w.client.Start(cliRequest(8, 20), func(stun.Event) {})
				}
			}))
		}
		var err error
		w.client, err = stun.NewClient(w.conn, opts...)
		if err != nil {
			w.fatal = "NewClient: " + err.Error()
			return
		}
		if sc.TwoClients {
			w.conn2 = &vConn{w: w, written: map[[12]byte]bool{}}
			w.coll2 = &vCollector{w: w}
			w.agent2 = &vAgent{w: w, a: stun.NewAgent(nil), deadlines: map[[12]byte]time.Time{}}
			w.raw2 = map[int][]byte{}
			w.clock2 = &vClock{now: cliT0}
			w.client2, err = stun.NewClient(w.conn2, stun.WithAgent(w.agent2), stun.WithClock(w.clock2), stun.WithCollector(w.coll2))
			if err != nil {
				w.fatal = "NewClient(2): " + err.Error()
				return
			}
		}
		for _, ev := range sc.Setup {
			w.do(ev, true)
		}
		var tids []int
		for ti := 1; ti < len(sc.Threads); ti++ {
			evs := sc.Threads[ti]
			tids = append(tids, sched.Spawn(fmt.Sprintf("T%d", ti), func() {
				for _, ev := range evs {
					w.do(ev, false)
				}
			}))
		}
		if len(sc.Threads) > 0 {
			for _, ev := range sc.Threads[0] {
				w.do(ev, sc.Sequential)
			}
		}
		// wait for the other scenario threads
		// wait for the other scenario threads - or until nothing else can move (a Do whose response was
		// lost only returns once the epilogue's ticks time it out)
		allDone := func() bool {
			for _, id := range tids {
				if !sched.ThreadDone(id) {
					return false
				}
			}
			return true
		}
		sched.PointDyn("join", nil, func() bool { return !allDone() })
		sched.Quiesce()
		if sc.Probe && w.closeRets == 0 {
			for _, ev := range []cliEv{{K: "start", I: 3}, {K: "start", I: 4}, {K: "resp", I: 4}, {K: "resp", I: 3}} {
				w.do(ev, true)
			}
		}
		switch sc.Epilogue {
		case "drain+close":
			for i := 0; i < 12 && w.closeRets == 0; i++ {
				if _, ok := w.agent.nextDeadline(); !ok {
					break
				}
				w.do(cliEv{K: "tick", Arg: 2}, true)
			}
			if w.closeRets == 0 {
				w.do(cliEv{K: "close"}, true)
			}
		case "close":
			if w.closeRets == 0 {
				w.do(cliEv{K: "close"}, true)
			}
		}
		if w.client2 != nil {
			_ = w.client2.Close()
			sched.Quiesce()
		}
		w.endPos = len(w.log)
		// after the end: nothing may reach a handler or the wire any more
		if w.closeRets > 0 {
			w.do(cliEv{K: "tick", Arg: 2}, true)
			inst, idx := w.newInst(2, "start")
			inst.Started = true
			m := cliRequest(2, 20)
			inst.Raw = append([]byte(nil), m.Raw...)
			err := w.client.Start(m, w.handlerFor(inst, idx))
			inst.Returned, inst.RetErr = true, err
			inst.RetAt = w.rec(obsRec{Kind: "start-ret", Inst: idx, Err: err})
			inst.Kind = "start-after-close"
			ierr := w.client.Indicate(cliRequest(2, 20))
			w.rec(obsRec{Kind: "indicate-ret", Inst: -2, Err: ierr})
			derr := w.client.Do(cliRequest(2, 20), func(stun.Event) {})
			w.rec(obsRec{Kind: "do-after-close", Inst: -2, Err: derr})
			cerr := w.client.Close()
			w.rec(obsRec{Kind: "close-ret", Inst: -1, Err: cerr, N: w.closeRets, ReaderDone: sched.LiveDaemons() == 0})
			w.closeRets++
			sched.Quiesce()
		}
		closedForGood := false // some Close call has returned as the one that closed the client
		for _, r := range w.log {
			if r.Kind == "close-ret" && !errors.Is(r.Err, stun.ErrClientClosed) {
				closedForGood = true
			}
		}
		if closedForGood && sc.Opts.NoConnClose && !w.conn.closed && w.fatal == "" {
			// the connection is still open and still the caller's: a new client on it gets every datagram from now on
			w.muted = true
			w.conn.inbox = nil
			w.conn.failNext = false
			sagent := &vAgent{w: w, a: stun.NewAgent(nil), deadlines: map[[12]byte]time.Time{}}
			succ, serr := stun.NewClient(w.conn, stun.WithAgent(sagent), stun.WithClock(w.clock), stun.WithCollector(&vCollector{w: w}), stun.WithNoConnClose(), stun.WithNoRetransmit)
			if serr == nil {
				w.succRan = true
				m := cliRequest(4, 20)
				serr = succ.Start(m, func(e stun.Event) {
					if e.Message != nil {
						w.succEvents = append(w.succEvents, "message")
					} else {
						w.succEvents = append(w.succEvents, "error:"+errClass(e.Error))
					}
				})
				if serr != nil {
					w.succEvents = append(w.succEvents, "start-failed:"+errClass(serr))
				}
				w.conn.inbox = append(w.conn.inbox, cliResponse(4, 0))
				sched.Quiesce()
				_ = succ.Close()
				sched.Quiesce()
			}
			w.muted = false
		}
	})
	return res, w
}
