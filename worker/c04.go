package main

import (
	"bytes"
	"crypto/md5" //nolint:gosec
	"encoding/hex"
	"encoding/json"
	"errors"
	"fmt"
	"strconv"

	stun "github.com/pion/stun/v3"

	"verif/ref"
)

// C04: MESSAGE-INTEGRITY is computed and verified exactly as RFC 5389 s15.4.

// refIntegrity is the oracle: true iff the first MESSAGE-INTEGRITY attribute of
// the (decodable) message is 20 bytes long and equals HMAC-SHA1(key, bytes
// before that attribute with the header length rewritten to end at it).
func refIntegrity(raw, key []byte) (verdict bool, hasMI bool) {
	m, _ := ref.Parse(raw)
	if m == nil {
		return false, false
	}
	for _, a := range m.Attrs {
		if a.Type != 0x0008 {
			continue
		}
		if a.Len != 20 {
			return false, true
		}
		start := a.Off - 4
		span := append([]byte(nil), raw[:start]...)
		l := start - 20 + 24
		span[2], span[3] = byte(l>>8), byte(l)
		return bytes.Equal(ref.HMACSHA1(key, span), a.Value), true
	}
	return false, false
}

type c04Case struct {
	Hex  string   `json:"hex"`            // message bytes
	Key  string   `json:"key"`            // hex
	Kind string   `json:"kind,omitempty"` // "" verification / AddTo, "refuse", "longterm"
	Cred []string `json:"cred,omitempty"`
}

func c04LongTerm(cr []string) (string, string) {
	want := md5.Sum([]byte(cr[0] + ":" + cr[1] + ":" + cr[2])) //nolint:gosec
	var got stun.MessageIntegrity
	if p := catch(func() { got = stun.NewLongTermIntegrity(cr[0], cr[1], cr[2]) }); p != "" {
		return "long-term-key", p
	}
	if !bytes.Equal(got, want[:]) {
		return "long-term-key", fmt.Sprintf("NewLongTermIntegrity(%q,%q,%q) = %x, MD5(user:realm:password) = %x", cr[0], cr[1], cr[2], []byte(got), want)
	}
	// the key is the caller's: wiping it after use (what one does with a secret) does not change what the same
	// credentials give next time
	for i := range got {
		got[i] = 0
	}
	var again stun.MessageIntegrity
	if p := catch(func() { again = stun.NewLongTermIntegrity(cr[0], cr[1], cr[2]) }); p != "" {
		return "long-term-key", p
	}
	if !bytes.Equal(again, want[:]) {
		return "long-term-key/after-the-caller-wiped-an-earlier-result", fmt.Sprintf("NewLongTermIntegrity(%q,%q,%q) a second time, after the caller zeroed the first result = %x, MD5(user:realm:password) = %x", cr[0], cr[1], cr[2], []byte(again), want)
	}
	return "", ""
}

// c04GuardFollows: whether AddTo signs or refuses depends on the attributes the message has NOW. mode 0: the message
// was decoded with FINGERPRINT, the caller strips it from the attribute list and re-encodes (a relay that re-signs):
// AddTo signs, with the RFC value. mode 1: decoded without FINGERPRINT, the caller appends one to the list and
// re-encodes: AddTo refuses and leaves the message alone.
func c04GuardFollows(lay []uint16, mode int, key []byte) (string, string) {
	src := new(stun.Message)
	src.TransactionID = [12]byte{4, 4, 4}
	src.WriteHeader()
	for i, t := range lay {
		if t == 0x8028 && mode == 1 {
			continue
		}
		src.Add(stun.AttrType(t), c04Value(t, 4, i))
	}
	if mode == 0 {
		src.Add(stun.AttrFingerprint, []byte{1, 2, 3, 4}) // (at the end as well)
	}
	m := new(stun.Message)
	if _, err := m.Write(src.Raw); err != nil {
		return "harness", err.Error()
	}
	if mode == 2 {
		// a signed message; the caller appends an attribute behind the MAC by hand (Type and Value, the way one fills a
		// RawAttribute) and re-encodes: the MAC still verifies, on that very Message and on a decode of its bytes
		signed := new(stun.Message)
		signed.TransactionID = [12]byte{4, 4, 4}
		signed.WriteHeader()
		for i, t := range lay {
			if t != 0x8028 {
				signed.Add(stun.AttrType(t), c04Value(t, 4, i))
			}
		}
		if err := stun.MessageIntegrity(key).AddTo(signed); err != nil {
			return "harness", err.Error()
		}
		d := new(stun.Message)
		if _, err := d.Write(signed.Raw); err != nil {
			return "harness", err.Error()
		}
		var e1, e2 error
		if p := catch(func() {
			d.Attributes = append(d.Attributes, stun.RawAttribute{Type: stun.AttrSoftware, Value: []byte("appended behind the MAC")})
			d.Encode()
			e1 = stun.MessageIntegrity(key).Check(d)
			f := new(stun.Message)
			if _, err := f.Write(d.Raw); err != nil {
				e2 = err
			} else {
				e2 = stun.MessageIntegrity(key).Check(f)
			}
		}); p != "" {
			return "check-after-reencoding", p
		}
		if e1 != nil || e2 != nil {
			return "check-after-reencoding", fmt.Sprintf("attributes %04x + MESSAGE-INTEGRITY decoded, SOFTWARE appended to m.Attributes by hand (Type and Value), Encode: Check on that Message = %v, on a decode of its bytes = %v", lay, e1, e2)
		}
		return "", ""
	}
	var err error
	if p := catch(func() {
		if mode == 0 {
			kept := m.Attributes[:0]
			for _, a := range m.Attributes {
				if a.Type != stun.AttrFingerprint {
					kept = append(kept, a)
				}
			}
			m.Attributes = kept
		} else {
			m.Attributes = append(m.Attributes, stun.RawAttribute{Type: stun.AttrFingerprint, Length: 4, Value: []byte{9, 9, 9, 9}})
		}
		m.Encode()
		err = stun.MessageIntegrity(key).AddTo(m)
	}); p != "" {
		return "guard-does-not-follow-attributes", p
	}
	if mode == 1 {
		if !errors.Is(err, stun.ErrFingerprintBeforeIntegrity) {
			return "guard-does-not-follow-attributes", fmt.Sprintf("attributes %04x decoded, FINGERPRINT appended to m.Attributes by hand, Encode: MessageIntegrity.AddTo = %v, want the refusal", lay, err)
		}
		return "", ""
	}
	if err != nil {
		return "guard-does-not-follow-attributes", fmt.Sprintf("attributes %04x decoded, every FINGERPRINT removed from m.Attributes, Encode: the message has no FINGERPRINT, yet MessageIntegrity.AddTo = %v", lay, err)
	}
	raw := m.Raw
	if len(raw) < 44 || !bytes.Equal(raw[len(raw)-20:], ref.HMACSHA1(key, raw[:len(raw)-24])) {
		return "guard-does-not-follow-attributes", fmt.Sprintf("attributes %04x decoded, FINGERPRINT stripped, Encode, AddTo: the MAC is not the RFC value: %x", lay, clip(raw))
	}
	return "", ""
}

// c04KeyBuffer: sign with K1 held in a buffer, overwrite the buffer with K2 (same length), then check and sign again.
func c04KeyBuffer(kl int) (key, detail string) {
	p := catch(func() {
		for round := 0; round < 4; round++ {
			buf := make([]byte, kl)
			k1 := patBytes(kl, 1+round)
			k2 := patBytes(kl, 50+round)
			copy(buf, k1)
			m := stun.MustBuild(stun.BindingRequest, stun.NewTransactionIDSetter([12]byte{byte(round)}), stun.NewUsername("u"))
			if err := stun.MessageIntegrity(buf).AddTo(m); err != nil {
				key, detail = "key-buffer", "AddTo: "+err.Error()
				return
			}
			copy(buf, k2) // the caller reuses its buffer for another user's key
			d := &stun.Message{Raw: exactSlice(m.Raw, 40)}
			_ = d.Decode()
			if err := stun.MessageIntegrity(buf).Check(d); err == nil {
				key, detail = "key-buffer", fmt.Sprintf("a message signed with key %x verifies under key %x after the caller rewrote its %d-byte key buffer in place", clip(k1), clip(k2), kl)
				return
			}
			if err := stun.MessageIntegrity(k1).Check(d); err != nil {
				key, detail = "key-buffer", fmt.Sprintf("the message no longer verifies under the key it was signed with (%d-byte key): %v", kl, err)
				return
			}
			m2 := stun.MustBuild(stun.BindingRequest, stun.NewTransactionIDSetter([12]byte{byte(round), 1}), stun.NewUsername("u"))
			_ = stun.MessageIntegrity(buf).AddTo(m2) // buf holds k2 now
			if ok, _ := refIntegrity(m2.Raw, k2); !ok {
				key, detail = "key-buffer", fmt.Sprintf("AddTo with a %d-byte key buffer that was rewritten in place produced a MAC that is not HMAC(current key)", kl)
				return
			}
		}
	})
	if p != "" {
		return "key-buffer", p
	}
	return
}

func c04Refuse(before []byte, key []byte) (string, string) {
	m := &stun.Message{Raw: exactSlice(before, 64)}
	if err := m.Decode(); err != nil {
		return "", ""
	}
	var err error
	if p := catch(func() { err = stun.MessageIntegrity(key).AddTo(m) }); p != "" {
		return "signs-after-fingerprint", p
	}
	if !errors.Is(err, stun.ErrFingerprintBeforeIntegrity) || !bytes.Equal(m.Raw, before) {
		return "signs-after-fingerprint", fmt.Sprintf("MessageIntegrity.AddTo on a message that already carries FINGERPRINT (%x) returned %v; message changed: %v", clip(before), err, !bytes.Equal(m.Raw, before))
	}
	return "", ""
}

// c04Verify decodes raw at exact capacity, runs Check and compares with the oracle.
func c04Verify(raw, key []byte) (outcome, vkey, detail string) {
	m := &stun.Message{Raw: exactSlice(raw, 0)}
	if err := m.Decode(); err != nil {
		return "undecodable", "", ""
	}
	snap := snapMsg(m)
	var err error
	if p := catch(func() { err = stun.MessageIntegrity(key).Check(m) }); p != "" {
		return "", "check-panic", fmt.Sprintf("MessageIntegrity.Check %s on %x", p, clip(raw))
	}
	if d := snap.diff(m); d != "" {
		return "", "check-side-effect", fmt.Sprintf("MessageIntegrity.Check changed the message: %s", d)
	}
	// checking is idempotent: the same call again on the same Message
	var err2 error
	if p := catch(func() { err2 = stun.MessageIntegrity(key).Check(m) }); p != "" || (err2 == nil) != (err == nil) {
		return "", "check-not-idempotent", fmt.Sprintf("MessageIntegrity.Check = %v, the same call again on the same Message = %v %s: %x", err, err2, p, clip(raw))
	}
	// taking a copy of the message for the wire (MarshalBinary, GobEncode) gives the bytes it has and leaves them alone:
	// a received message need not be in the library's canonical encoding (padding bytes, the legacy 0x8020 type), and
	// the MAC covers the bytes as they are
	var mb, gb []byte
	if p := catch(func() { mb, _ = m.MarshalBinary(); gb, _ = m.GobEncode() }); p != "" {
		return "", "check-panic", fmt.Sprintf("MarshalBinary / GobEncode %s on %x", p, clip(raw))
	}
	if !bytes.Equal(mb, raw) || !bytes.Equal(gb, raw) || !bytes.Equal(m.Raw, raw) {
		return "", "marshal-changes-message", fmt.Sprintf("after decoding %x: MarshalBinary = %x, GobEncode = %x, m.Raw afterwards = %x", clip(raw), clip(mb), clip(gb), clip(m.Raw))
	}
	if p := catch(func() { err2 = stun.MessageIntegrity(key).Check(m) }); p != "" || (err2 == nil) != (err == nil) {
		return "", "check-not-idempotent", fmt.Sprintf("MessageIntegrity.Check = %v, after MarshalBinary and GobEncode of the same Message = %v %s: %x", err, err2, p, clip(raw))
	}
	// a receiver runs the fingerprint check and the integrity check on the same Message, in either order, and the first
	// may well fail (RFC 5389 section 7.3: FINGERPRINT first): the integrity verdict is the same after it
	if p := catch(func() { _ = stun.Fingerprint.Check(m); err2 = stun.MessageIntegrity(key).Check(m) }); p != "" || (err2 == nil) != (err == nil) {
		return "", "check-after-fingerprint-check", fmt.Sprintf("MessageIntegrity.Check = %v, after Fingerprint.Check on the same Message = %v %s: %x", err, err2, p, clip(raw))
	}
	// the same check from inside a ForEach callback (ForEach hands the callback a window of the attribute list)
	var ferr error
	visited := false
	_ = m.ForEach(stun.AttrMessageIntegrity, func(mm *stun.Message) error {
		if !visited {
			visited = true
			ferr = stun.MessageIntegrity(key).Check(mm)
		}
		return nil
	})
	if visited && (ferr == nil) != (err == nil) {
		return "", "check-inside-foreach", fmt.Sprintf("MessageIntegrity.Check = %v directly but %v from a ForEach(MESSAGE-INTEGRITY) callback: %x", err, ferr, clip(raw))
	}
	if d := snap.diff(m); d != "" {
		return "", "check-side-effect", fmt.Sprintf("MessageIntegrity.Check inside ForEach changed the message: %s", d)
	}
	want, hasMI := refIntegrity(raw, key)
	if (err == nil) != want {
		k := "accepts-invalid"
		if want {
			k = "rejects-valid"
		}
		return "", k, fmt.Sprintf("MessageIntegrity(%x).Check = %v but the RFC 5389 s15.4 verdict is %v (message has integrity attribute: %v): %x", clip(key), err, want, hasMI, clip(raw))
	}
	if !hasMI && !errors.Is(err, stun.ErrAttributeNotFound) {
		return "", "missing-attribute-error", fmt.Sprintf("Check on a message without MESSAGE-INTEGRITY returned %v", err)
	}
	if want {
		return "verified", "", ""
	}
	if hasMI {
		return "mismatch", "", ""
	}
	return "no-mi", "", ""
}

type c04Attr struct {
	T uint16
	L int
}

func c04Value(t uint16, l, salt int) []byte {
	v := make([]byte, l)
	for i := range v {
		v[i] = byte(int(t) + i*13 + salt)
	}
	return v
}

var c04Keys = func() [][]byte {
	var ks [][]byte
	for _, n := range []int{0, 1, 19, 20, 63, 64, 65, 128, 200} {
		k := make([]byte, n)
		for i := range k {
			k[i] = byte(i*5 + n)
		}
		ks = append(ks, k)
	}
	return ks
}()

func enumAttrLists(maxN int, opts []c04Attr, fn func([]c04Attr)) {
	var cur []c04Attr
	var rec func()
	rec = func() {
		fn(cur)
		if len(cur) == maxN {
			return
		}
		for _, o := range opts {
			cur = append(cur, o)
			rec()
			cur = cur[:len(cur)-1]
		}
	}
	rec()
}

func init() {
	registry["C04"] = propImpl{
		Run: func(c *Ctx) {
			nb, na := 2, 1
			if c.Thorough() {
				nb, na = 2, 2
			}
			var beforeOpts, afterOpts []c04Attr
			for l := 0; l <= 5; l++ {
				beforeOpts = append(beforeOpts, c04Attr{0x0006, l})
			}
			// XOR-MAPPED-ADDRESS under its registered type and under the legacy code point the decoder also accepts:
			// the attribute header is covered by the MAC as it is on the wire
			beforeOpts = append(beforeOpts, c04Attr{0x0020, 8}, c04Attr{0x8020, 8})
			for _, t := range []uint16{0x8022, 0x8028, 0x0008, 0x7FFF} {
				for l := 0; l <= 5; l++ {
					afterOpts = append(afterOpts, c04Attr{t, l})
				}
			}
			afterOpts = append(afterOpts, c04Attr{0x0008, 20}, c04Attr{0x8028, 4})
			tid := [12]byte{0xde, 0xad, 0xbe, 0xef, 1, 2, 3, 4, 5, 6, 7, 8}
			var idx int64
			report := func(raw, key []byte, tag string) bool {
				c.Eval(1)
				c.DistinctBytes(raw, key)
				out, vk, d := c04Verify(raw, key)
				if vk != "" {
					c.Violation(vk, d, c04Case{Hex: hex.EncodeToString(raw), Key: hex.EncodeToString(key)})
					return false
				}
				c.Outcome(tag + ":" + out)
				return true
			}
			// long-term key derivation
			if c.Shard == 0 {
				for _, cr := range [][]string{{"user", "realm", "pass"}, {"", "", ""}, {"a:b", "c", "d"}, {"マトリックス", "example.org", "The­MªtrⅨ"},
					{"100%secret", "realm", "pass"}, {"u", "r%%q", "p%d"}, {"%s", "%v", "%!"}, {"user", "realm", "trailing%"}} {
					c.Eval(1)
					if k, d := c04LongTerm(cr); k != "" {
						c.Violation(k, d, c04Case{Kind: "longterm", Cred: cr})
					}
					c.Outcome("long-term-key")
				}
				// every total credential length 0..700 (user grows; realm and password fixed)
				for ul := 0; ul <= 700; ul++ {
					cr := []string{string(patBytes(ul, 3)), "realm.example", "secret-password"}
					c.Eval(1)
					if k, d := c04LongTerm(cr); k != "" {
						c.Violation(k, d, c04Case{Kind: "longterm", Cred: cr})
					}
				}
				c.Outcome("long-term-key-lengths")
				// the short-term key is the password as it is, for every length (both sides of the hash block size)
				for pl := 0; pl <= 200; pl++ {
					pw := string(patBytes(pl, 11))
					c.Eval(1)
					if got := stun.NewShortTermIntegrity(pw); !bytes.Equal(got, []byte(pw)) {
						c.Violation("short-term-key", fmt.Sprintf("NewShortTermIntegrity(password of %d bytes) is a %d-byte key %x, RFC 5389 s15.4: key = SASLprep(password) (the password itself for ASCII)", pl, len(got), clip(got)), c04Case{Kind: "shortterm", Cred: []string{pw}})
						break
					}
				}
				c.Outcome("short-term-key-lengths")
			}
			enumAttrLists(nb, beforeOpts, func(before []c04Attr) {
				b0 := append([]c04Attr(nil), before...)
				enumAttrLists(na, afterOpts, func(after []c04Attr) {
					idx++
					if !c.Mine(idx) || c.Expired() {
						return
					}
					for ki, key := range c04Keys {
						// library-signed
						m := new(stun.Message)
						m.TransactionID = tid
						m.Type = stun.BindingRequest
						m.WriteHeader()
						for i, a := range b0 {
							m.Add(stun.AttrType(a.T), c04Value(a.T, a.L, i))
						}
						pre := append([]byte(nil), m.Raw...)
						var serr error
						if p := catch(func() { serr = stun.MessageIntegrity(key).AddTo(m) }); p != "" || serr != nil {
							c.Violation("addto-fails", fmt.Sprintf("MessageIntegrity.AddTo: %v %s", serr, p), c04Case{Hex: hex.EncodeToString(pre), Key: hex.EncodeToString(key)})
							return
						}
						// AddTo must append exactly the RFC value
						span := append([]byte(nil), pre...)
						l := len(pre) - 20 + 24
						span[2], span[3] = byte(l>>8), byte(l)
						wantMAC := ref.HMACSHA1(key, span)
						wantRaw := append(append(append([]byte(nil), span...), 0x00, 0x08, 0x00, 0x14), wantMAC...)
						c.Eval(1)
						if !bytes.Equal(m.Raw, wantRaw) {
							c.Violation("addto-wrong-mac", fmt.Sprintf("MessageIntegrity(%x).AddTo appended %x, RFC 5389 s15.4 prescribes %x", clip(key), m.Raw[len(pre):], wantRaw[len(pre):]), c04Case{Hex: hex.EncodeToString(pre), Key: hex.EncodeToString(key)})
							return
						}
						for i, a := range after {
							v := c04Value(a.T, a.L, 40+i)
							m.Add(stun.AttrType(a.T), v)
						}
						signed := append([]byte(nil), m.Raw...)
						if ki == 3 && len(c.Res.Samples) < 3 {
							c.Sample(map[string]interface{}{"signed_message_hex": hex.EncodeToString(signed), "key_hex": hex.EncodeToString(key), "attrs_before_mac": len(b0), "attrs_after_mac": len(after)})
						}
						if !report(signed, key, "signed") {
							return
						}
						// wrong keys
						for _, wk := range [][]byte{append(append([]byte(nil), key...), 0), flipBit(key, 0), c04Keys[(ki+1)%len(c04Keys)]} {
							if !report(signed, wk, "wrongkey") {
								return
							}
						}
						if ki%3 != int(idx%3) {
							continue // MAC variants and bit flips on a third of the keys per message, rotating
						}
						// other MAC attribute values in place of the correct one
						macOff := len(pre) + 4
						// 20-byte values a sloppy comparison or a "compatibility" path could take for the right one: the
						// same bit flipped in two 4-byte words (cancels in a word-wise XOR fold), two words exchanged, the
						// MAC rotated by whole words, and HMACs over plausible other texts / with plausible other hashes
						var others [][]byte
						for wi := 0; wi < 5; wi++ {
							for wj := wi + 1; wj < 5; wj++ {
								for bit := 0; bit < 32; bit++ {
									mm := append([]byte(nil), wantMAC...)
									mm[wi*4+bit/8] ^= 0x80 >> uint(bit%8)
									mm[wj*4+bit/8] ^= 0x80 >> uint(bit%8)
									others = append(others, mm)
								}
								mm := append([]byte(nil), wantMAC...)
								for q := 0; q < 4; q++ {
									mm[wi*4+q], mm[wj*4+q] = mm[wj*4+q], mm[wi*4+q]
								}
								others = append(others, mm)
							}
						}
						for rot := 4; rot < 20; rot += 4 {
							others = append(others, append(append([]byte(nil), wantMAC[rot:]...), wantMAC[:rot]...))
						}
						padded := append([]byte(nil), span...)
						for len(padded)%64 != 0 {
							padded = append(padded, 0)
						}
						others = append(others,
							ref.HMACSHA1(key, padded),                // RFC 3489: text zero-padded to a multiple of 64
							ref.HMACSHA1(key, pre),                   // header length not yet adjusted
							ref.HMACSHA1(key, wantRaw[:len(span)+4]), // text including the attribute header
							ref.HMACSHA1(key, span[20:]),             // without the message header
							ref.HMACSHA256(key, span)[:20],           // the RFC 8489 hash, truncated
							ref.HMACSHA1(span, key),                  // arguments exchanged
						)
						if len(after) > 0 {
							ls := append([]byte(nil), span...)
							ls[2], ls[3] = signed[2], signed[3]
							others = append(others, ref.HMACSHA1(key, ls)) // length of the whole message
						}
						for _, mac := range others {
							if bytes.Equal(mac, wantMAC) {
								continue
							}
							attrs := []ref.EncodeAttr{}
							for i, a := range b0 {
								attrs = append(attrs, ref.EncodeAttr{Type: a.T, Value: c04Value(a.T, a.L, i)})
							}
							attrs = append(attrs, ref.EncodeAttr{Type: 0x0008, Value: mac})
							for i, a := range after {
								attrs = append(attrs, ref.EncodeAttr{Type: a.T, Value: c04Value(a.T, a.L, 40+i)})
							}
							if !report(ref.Encode(0x0001, tid, attrs), key, "macvariant") {
								return
							}
						}
						for _, variant := range []int{19, 21, 24, 0, -1, -2, -3} {
							var mac []byte
							switch {
							case variant > 0:
								mac = make([]byte, variant)
								copy(mac, wantMAC)
							case variant == 0:
								mac = []byte{}
							case variant == -1:
								mac = make([]byte, 20) // all zero
							case variant == -2:
								mac = make([]byte, 20) // first 4 bytes right
								copy(mac, wantMAC[:4])
							case variant == -3:
								mac = append([]byte(nil), wantMAC...) // last byte wrong
								mac[19] ^= 0x80
							}
							attrs := []ref.EncodeAttr{}
							for i, a := range b0 {
								attrs = append(attrs, ref.EncodeAttr{Type: a.T, Value: c04Value(a.T, a.L, i)})
							}
							attrs = append(attrs, ref.EncodeAttr{Type: 0x0008, Value: mac})
							for i, a := range after {
								attrs = append(attrs, ref.EncodeAttr{Type: a.T, Value: c04Value(a.T, a.L, 40+i)})
							}
							raw := ref.Encode(0x0001, tid, attrs)
							// non-zero padding must not matter
							for i := range raw[20:] {
								_ = i
							}
							if !report(raw, key, "macvariant") {
								return
							}
						}
						// every single-bit flip of the signed message
						for bit := 0; bit < len(signed)*8; bit++ {
							mut := flipBit(signed, bit)
							if bit/8 >= macOff+20 && bit%8 != 0 && !c.Thorough() {
								continue // quick: one bit per byte after the MAC
							}
							if !report(mut, key, "bitflip") {
								return
							}
						}
					}
				})
			})
			// signing is refused once FINGERPRINT is present - wherever it is - and leaves the message alone
			if c.Shard == 0 {
				for _, lay := range [][]uint16{{0x8028}, {0x0006, 0x8028}, {0x8028, 0x8022}, {0x0006, 0x8028, 0x8022, 0x0014}, {0x8028, 0x8028}} {
					m := new(stun.Message)
					m.TransactionID = tid
					m.WriteHeader()
					for i, t := range lay {
						m.Add(stun.AttrType(t), c04Value(t, 4, i))
					}
					before := append([]byte(nil), m.Raw...)
					c.Eval(1)
					if k, d := c04Refuse(before, c04Keys[3]); k != "" {
						c.Violation(k, d, c04Case{Kind: "refuse", Hex: hex.EncodeToString(before), Key: hex.EncodeToString(c04Keys[3])})
					}
					c.Outcome("refused-after-fingerprint")
				}
			}
			if c.Shard == 0 {
				for li, lay := range [][]uint16{{0x8028}, {0x0006, 0x8028}, {0x8028, 0x8022}, {0x0006, 0x8028, 0x8022, 0x0014}, {0x8028, 0x8028}, {0x0006}, {}} {
					for mode := 0; mode < 3; mode++ {
						c.Eval(1)
						if k, d := c04GuardFollows(lay, mode, c04Keys[3]); k != "" {
							c.Violation(k, d, c04Case{Kind: "guard", Cred: []string{fmt.Sprint(li), fmt.Sprint(mode)}, Key: hex.EncodeToString(c04Keys[3])})
						}
						c.Outcome("guard-follows-attributes")
					}
				}
			}
			// the caller's key buffer is rewritten in place between two operations: every operation must use the key
			// bytes it is given at that moment
			if c.Shard == 0 {
				for _, kl := range []int{16, 20, 64, 65, 100} {
					c.Eval(1)
					if k, d := c04KeyBuffer(kl); k != "" {
						c.Violation(k, d, c04Case{Kind: "keybuf", Key: fmt.Sprint(kl)})
					}
					c.Outcome("key-buffer-reuse")
				}
			}
			// one long chain: 8 attributes before, 4 after
			if c.Shard == 0 {
				m := new(stun.Message)
				m.TransactionID = tid
				m.WriteHeader()
				for i := 0; i < 8; i++ {
					m.Add(stun.AttrType(0x0006+uint16(i)*0x100), c04Value(uint16(i), i*3%7+i, i))
				}
				_ = stun.MessageIntegrity(c04Keys[4]).AddTo(m)
				for i := 0; i < 4; i++ {
					m.Add(stun.AttrType(0x8022), c04Value(9, i*5%7, i))
				}
				report(append([]byte(nil), m.Raw...), c04Keys[4], "chain")
			}
			if c.Expired() {
				c.Res.Exhaustive = false
			}
			c.Extra("max_attrs_before", float64(nb))
			c.Extra("max_attrs_after", float64(na))
			c.Extra("key_lengths", []int{0, 1, 19, 20, 63, 64, 65, 128, 200})
		},
		Replay: func(c *Ctx, p json.RawMessage) {
			var k c04Case
			if err := json.Unmarshal(p, &k); err != nil {
				c.Fail("%v", err)
			}
			raw, _ := hex.DecodeString(k.Hex)
			key, _ := hex.DecodeString(k.Key)
			switch k.Kind {
			case "longterm":
				if kk, d := c04LongTerm(k.Cred); kk != "" {
					c.Violation(kk, d, k)
				}
				return
			case "shortterm":
				if got := stun.NewShortTermIntegrity(k.Cred[0]); !bytes.Equal(got, []byte(k.Cred[0])) {
					c.Violation("short-term-key", fmt.Sprintf("NewShortTermIntegrity(password of %d bytes) is a %d-byte key", len(k.Cred[0]), len(got)), k)
				}
				return
			case "guard":
				li, _ := strconv.Atoi(k.Cred[0])
				mode, _ := strconv.Atoi(k.Cred[1])
				kb, _ := hex.DecodeString(k.Key)
				lay := [][]uint16{{0x8028}, {0x0006, 0x8028}, {0x8028, 0x8022}, {0x0006, 0x8028, 0x8022, 0x0014}, {0x8028, 0x8028}, {0x0006}, {}}[li]
				if key, d := c04GuardFollows(lay, mode, kb); key != "" {
					c.Violation(key, d, k)
				}
				return
			case "refuse":
				if kk, d := c04Refuse(raw, key); kk != "" {
					c.Violation(kk, d, k)
				}
				return
			case "keybuf":
				var kl int
				fmt.Sscan(k.Key, &kl)
				if kk, d := c04KeyBuffer(kl); kk != "" {
					c.Violation(kk, d, k)
				}
				return
			}
			// a replay is either a verification case or an AddTo case (message before signing)
			if _, has := refIntegrity(raw, key); !has {
				m := &stun.Message{Raw: exactSlice(raw, 64)}
				if err := m.Decode(); err == nil {
					pre := append([]byte(nil), m.Raw...)
					if serr := stun.MessageIntegrity(key).AddTo(m); serr == nil {
						span := append([]byte(nil), pre...)
						l := len(pre) - 20 + 24
						span[2], span[3] = byte(l>>8), byte(l)
						wantRaw := append(append(append([]byte(nil), span...), 0x00, 0x08, 0x00, 0x14), ref.HMACSHA1(key, span)...)
						if !bytes.Equal(m.Raw, wantRaw) {
							c.Violation("addto-wrong-mac", "AddTo appended a value different from RFC 5389 s15.4", k)
							return
						}
					}
				}
			}
			if _, vk, d := c04Verify(raw, key); vk != "" {
				c.Violation(vk, d, k)
			}
		},
	}
}

func flipBit(b []byte, bit int) []byte {
	out := append([]byte(nil), b...)
	if len(out) == 0 {
		return []byte{1}
	}
	out[(bit/8)%len(out)] ^= 1 << uint(bit%8)
	return out
}
