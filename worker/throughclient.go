package main

import (
	"bytes"
	"fmt"

	stun "github.com/pion/stun/v3"
)

// A client sends the message it is given. throughClient sends m through Indicate (0), Start (1) or Do(m, nil) (2) of a
// real Client on a recording connection and reports what is wrong with the result: the datagram on the wire is m.Raw as
// it was, and m is unchanged afterwards (bytes, fields, attribute list).
func throughClient(m *stun.Message, way int) string {
	conn := &c19Conn{closed: make(chan struct{})}
	cl, err := stun.NewClient(conn, stun.WithNoRetransmit)
	if err != nil {
		return "NewClient: " + err.Error()
	}
	defer cl.Close()
	before := append([]byte(nil), m.Raw...)
	snap := renderMsg(m)
	switch way {
	case 0:
		err = cl.Indicate(m)
	case 1:
		err = cl.Start(m, func(stun.Event) {})
	default:
		err = cl.Do(m, nil)
	}
	name := []string{"Indicate", "Start", "Do(m,nil)"}[way%3]
	if err != nil {
		return fmt.Sprintf("%s failed: %v", name, err)
	}
	conn.mu.Lock()
	ws := conn.writes
	conn.mu.Unlock()
	if len(ws) != 1 {
		return fmt.Sprintf("%s wrote %d datagrams", name, len(ws))
	}
	if !bytes.Equal(ws[0], before) {
		return fmt.Sprintf("%s put %x on the wire, the message was %x", name, clip(ws[0]), clip(before))
	}
	if got := renderMsg(m); got != snap {
		return fmt.Sprintf("%s changed the caller's message: Raw now %x, was %x", name, clip(m.Raw), clip(before))
	}
	return ""
}
