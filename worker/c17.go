package main

import (
	"bytes"
	"crypto/ecdsa"
	"crypto/elliptic"
	"crypto/rand"
	"crypto/tls"
	"crypto/x509"
	"crypto/x509/pkix"
	"encoding/json"
	"errors"
	"fmt"
	"math/big"
	"net"
	"sort"
	"strings"
	"sync"
	"time"

	stun "github.com/pion/stun/v3"

	"github.com/pion/transport/v3"
)

// C17: URIs get RFC 7064/7065 defaults, round-trip, and DialURI dials the
// transport they name.

type c17Expect struct {
	MustReject bool
	MustAccept bool
	Scheme     stun.SchemeType
	Host       string
	Port       int
	Protos     []stun.ProtoType // acceptable transports if accepted
	Why        string
}

type uriParts struct{ Scheme, Host, Port, Query string }

func (p uriParts) String() string { return p.Scheme + ":" + p.Host + p.Port + p.Query }

var (
	c17Schemes = []string{"stun", "stuns", "turn", "turns", "http", "stunx", "STUN", "Turns"}
	c17Hosts   = []string{"example.org", "a", "a.b-c.d", "1.2.3.4", "[::1]", "[fe80::1%25eth0]", "[2001:db8::ff]", "", "[h]", "xn--bcher-kva.example",
		"[2001:DB8::1]", "[0:0:0:0:0:0:0:1]", "[::ffff:192.0.2.1]", "[2001:0db8::0001]", "EXAMPLE.org", "010.1.2.3",
		"[fe80::1%2511]", "[fe80::1%11]", "[fe80::1%25]", "[fe80::1%2525x]", "[fe80::1%41]", "[fe80::1%en0]"}
	c17Ports = []string{"", ":", ":0", ":1", ":3478", ":5349", ":65535", ":65536", ":99999", ":-1", ":+5", ":12a", ":99999999999999999999", ":0080", ":0100", ":09", ":4294967297", ":0x50", ":3_478", ":0b11", ":0o17", ":1e3", ": 80",
		// values that are a valid port modulo 2^16, 2^32 and 2^64
		":69014", ":4294970774", ":18446744073709555094", ":18446744073709551616", ":55340232221128660197", ":-18446744073709548138", ":00000000000000000000003478"}
	c17Queries = []string{"", "?", "?transport=udp", "?transport=tcp", "?transport=UDP", "?transport=sctp", "?transport=", "?transport=udp&x=1", "?x=1", "?transport=udp&transport=tcp", "?transport=tcp&transport=udp", "?transport", "?Transport=udp", "?transport=udp&", "?x=1&y=2",
		"?%zz", "?transport=tcp;x=1", "?transport=tcp&%zz=1", "?foo=1;bar=2", "?transport=udp%", "?%"}
	// near-misses of the two transport names: the name with something (escaped or not) in front of or behind it, other
	// spellings and other protocols. RFC 7065 section 3.1 lists exactly "udp" and "tcp"; all of these are unknown.
	c17NearMissTransports = func() map[string]bool {
		out := map[string]bool{}
		for _, name := range []string{"udp", "tcp"} {
			for _, d := range []string{"+", "%20", "%09", "%0A", "%0D", "%00", ".", "%2C", "s", "4", "6", "%22", "'"} {
				out["?transport="+name+d] = true
				out["?transport="+d+name] = true
			}
		}
		for _, o := range []string{"Tcp", "Udp", "TCP", "tls", "dtls", "ud", "tc", "udptcp", "tcp%2Cudp"} {
			out["?transport="+o] = true
		}
		return out
	}()
)

// c17Oracle derives the expectation from the generated components (it never
// re-parses the string).
func c17Oracle(p uriParts) c17Expect {
	var e c17Expect
	lower := strings.ToLower(p.Scheme)
	upper := lower != p.Scheme
	switch lower {
	case "stun":
		e.Scheme = stun.SchemeTypeSTUN
	case "stuns":
		e.Scheme = stun.SchemeTypeSTUNS
	case "turn":
		e.Scheme = stun.SchemeTypeTURN
	case "turns":
		e.Scheme = stun.SchemeTypeTURNS
	default:
		return c17Expect{MustReject: true, Why: "unknown scheme"}
	}
	secure := e.Scheme == stun.SchemeTypeSTUNS || e.Scheme == stun.SchemeTypeTURNS
	isStun := e.Scheme == stun.SchemeTypeSTUN || e.Scheme == stun.SchemeTypeSTUNS
	e.Host = strings.TrimSuffix(strings.TrimPrefix(p.Host, "["), "]")
	if e.Host == "" {
		return c17Expect{MustReject: true, Why: "empty host"}
	}
	ambiguous := upper // scheme case: RFC 3986 says case-insensitive; only "if accepted then consistent"
	switch p.Port {
	case "":
		e.Port = 3478
		if secure {
			e.Port = 5349
		}
	case ":0":
		e.Port = 0
	case ":1":
		e.Port = 1
	case ":3478":
		e.Port = 3478
	case ":5349":
		e.Port = 5349
	case ":65535":
		e.Port = 65535
	case ":0080":
		e.Port = 80 // port = *DIGIT: leading zeros are decimal digits
	case ":0100":
		e.Port = 100
	case ":09":
		e.Port = 9
	case ":+5":
		e.Port = 5
		ambiguous = true // a sign is not a digit, but the property only demands the range
	case ":":
		return c17Expect{MustReject: true, Why: "empty port"}
	case ":00000000000000000000003478":
		e.Port = 3478
	case ":65536", ":99999", ":-1", ":99999999999999999999", ":4294967297",
		":69014", ":4294970774", ":18446744073709555094", ":18446744073709551616", ":55340232221128660197", ":-18446744073709548138":
		return c17Expect{MustReject: true, Why: "port out of range " + p.Port}
	case ":12a", ":0x50", ":3_478", ":0b11", ":0o17", ":1e3", ": 80":
		return c17Expect{MustReject: true, Why: "non-numeric port"}
	default:
		panic("c17Oracle: unknown port component " + p.Port)
	}
	def := stun.ProtoTypeUDP
	if e.Scheme == stun.SchemeTypeSTUNS || e.Scheme == stun.SchemeTypeTURNS {
		def = stun.ProtoTypeTCP
	}
	switch p.Query {
	case "":
		e.Protos = []stun.ProtoType{def}
	case "?":
		e.Protos = []stun.ProtoType{def}
		ambiguous = true // empty query
	case "?transport=udp", "?transport=tcp":
		if isStun {
			return c17Expect{MustReject: true, Why: "stun/stuns with a query"}
		}
		if p.Query == "?transport=udp" {
			e.Protos = []stun.ProtoType{stun.ProtoTypeUDP}
		} else {
			e.Protos = []stun.ProtoType{stun.ProtoTypeTCP}
		}
	case "?transport=udp&":
		if isStun {
			return c17Expect{MustReject: true, Why: "stun/stuns with a query"}
		}
		e.Protos = []stun.ProtoType{stun.ProtoTypeUDP}
		ambiguous = true
	case "?transport=UDP", "?transport=sctp", "?transport=":
		if isStun {
			return c17Expect{MustReject: true, Why: "stun/stuns with a query"}
		}
		return c17Expect{MustReject: true, Why: "unknown transport"}
	case "?%zz", "?transport=tcp;x=1", "?transport=tcp&%zz=1", "?foo=1;bar=2", "?transport=udp%", "?%":
		return c17Expect{MustReject: true, Why: "malformed query"}
	case "?transport=udp&x=1", "?x=1", "?x=1&y=2", "?Transport=udp":
		if isStun {
			return c17Expect{MustReject: true, Why: "stun/stuns with a query"}
		}
		return c17Expect{MustReject: true, Why: "extra / other query key"}
	case "?transport=udp&transport=tcp", "?transport=tcp&transport=udp", "?transport":
		if isStun {
			return c17Expect{MustReject: true, Why: "stun/stuns with a query"}
		}
		e.Protos = []stun.ProtoType{stun.ProtoTypeUDP, stun.ProtoTypeTCP}
		ambiguous = true // repeated key / key without value: only "if accepted then a listed transport"
	default:
		if c17NearMissTransports[p.Query] {
			if isStun {
				return c17Expect{MustReject: true, Why: "stun/stuns with a query"}
			}
			return c17Expect{MustReject: true, Why: "unknown transport"}
		}
		panic("c17Oracle: unknown query component " + p.Query)
	}
	e.MustAccept = !ambiguous
	return e
}

// uriSound checks the invariants every accepted URI must satisfy, and the
// String/ParseURI round trip.
func uriSound(s string, u *stun.URI) string {
	_, msg := uriSoundK(s, u)
	return msg
}

// uriSoundK also returns the violation class.
func uriSoundK(s string, u *stun.URI) (string, string) {
	switch u.Scheme {
	case stun.SchemeTypeSTUN, stun.SchemeTypeSTUNS, stun.SchemeTypeTURN, stun.SchemeTypeTURNS:
	default:
		return "unsound-uri/scheme", fmt.Sprintf("ParseURI(%q) accepted with unknown scheme %d", s, u.Scheme)
	}
	if u.Host == "" {
		return "unsound-uri/empty-host", fmt.Sprintf("ParseURI(%q) accepted with empty host", s)
	}
	if u.Port < 0 || u.Port > 65535 {
		return "unsound-uri/port-range", fmt.Sprintf("ParseURI(%q) accepted with port %d", s, u.Port)
	}
	switch {
	case u.Scheme == stun.SchemeTypeSTUN && u.Proto != stun.ProtoTypeUDP,
		u.Scheme == stun.SchemeTypeSTUNS && u.Proto != stun.ProtoTypeTCP,
		u.Proto != stun.ProtoTypeUDP && u.Proto != stun.ProtoTypeTCP:
		return "unsound-uri/transport", fmt.Sprintf("ParseURI(%q) accepted with scheme %v transport %v", s, u.Scheme, u.Proto)
	}
	str := u.String()
	// the text handed out is the caller's: formatting other URIs (or this one again) later does not change it
	strCopy := strings.Clone(str)
	other := stun.URI{Scheme: stun.SchemeTypeTURN, Host: "192.0.2.7", Port: 3478, Proto: stun.ProtoTypeTCP}
	if u.Scheme == stun.SchemeTypeTURN {
		other = stun.URI{Scheme: stun.SchemeTypeSTUNS, Host: "2001:db8::7", Port: 1, Proto: stun.ProtoTypeTCP}
	}
	otherStr := other.String()
	otherCopy := strings.Clone(otherStr)
	if str == strCopy {
		_ = u.String()
		if otherStr != otherCopy {
			return "string-changed-by-later-String", fmt.Sprintf("URI%+v.String() returned %q; after String() of ParseURI(%q) that same string reads %q", other, otherCopy, s, otherStr)
		}
	}
	if str != strCopy {
		return "string-changed-by-later-String", fmt.Sprintf("ParseURI(%q).String() returned %q; after String() of another URI that same string reads %q", s, strCopy, str)
	}
	var u2 *stun.URI
	var err error
	if p := catch(func() { u2, err = stun.ParseURI(str) }); p != "" {
		return "roundtrip/panic", fmt.Sprintf("ParseURI(%q).String()=%q: re-parse %s", s, str, p)
	}
	if err != nil || u2 == nil {
		return "roundtrip/reparse-fails/" + hostClass(u.Host), fmt.Sprintf("ParseURI(%q).String()=%q does not parse: %v", s, str, err)
	}
	if *u2 != *u {
		return "roundtrip/differs/" + hostClass(u.Host), fmt.Sprintf("round trip of %q: %+v -> %q -> %+v", s, *u, str, *u2)
	}
	// the result is a function of the text: what a caller does to an earlier result does not show in a later one
	orig := *u
	u.Username, u.Password, u.Host, u.Port = "edited", "edited", "edited.invalid", u.Port^1
	if u.Proto == stun.ProtoTypeUDP {
		u.Proto = stun.ProtoTypeTCP
	} else {
		u.Proto = stun.ProtoTypeUDP
	}
	var u3 *stun.URI
	if p := catch(func() { u3, err = stun.ParseURI(s) }); p != "" {
		return "reparse/panic", fmt.Sprintf("second ParseURI(%q) %s", s, p)
	}
	*u = orig
	if err != nil || u3 == nil || *u3 != orig {
		return "result-depends-on-earlier-calls", fmt.Sprintf("ParseURI(%q) gave %+v; after the caller edited that value, the same text parses as %+v (err %v)", s, orig, u3, err)
	}
	return "", ""
}

// hostClass names the feature of an accepted host that matters for the round trip.
func hostClass(h string) string {
	switch {
	case strings.HasPrefix(h, "/"):
		return "host-starts-with-slash"
	case strings.ContainsAny(h, "[]"):
		return "host-contains-bracket"
	case strings.Contains(h, ":"):
		return "host-contains-colon"
	case strings.ContainsAny(h, "?#"):
		return "host-contains-delimiter"
	}
	return "other-host"
}

func c17Grammar(c *Ctx, p uriParts) {
	s := p.String()
	exp := c17Oracle(p)
	c.Eval(1)
	c.DistinctBytes([]byte(s))
	var u *stun.URI
	var err error
	if pn := catch(func() { u, err = stun.ParseURI(s) }); pn != "" {
		c.Violation("panic", fmt.Sprintf("ParseURI(%q) %s", s, pn), map[string]interface{}{"kind": "grammar", "parts": p})
		return
	}
	rp := map[string]interface{}{"kind": "grammar", "parts": p}
	if err != nil {
		if exp.MustAccept {
			c.Violation("rejects-valid", fmt.Sprintf("ParseURI(%q) = %v; the components form a valid URI (host %q port %d)", s, err, exp.Host, exp.Port), rp)
			return
		}
		c.Outcome("reject")
		return
	}
	if exp.MustReject {
		c.Violation("accepts-invalid/"+strings.Fields(exp.Why)[0]+"-"+strings.Fields(exp.Why)[1], fmt.Sprintf("ParseURI(%q) accepted (%+v); must be rejected: %s", s, *u, exp.Why), rp)
		return
	}
	if k, msg := uriSoundK(s, u); msg != "" {
		c.Violation(k, msg, rp)
		return
	}
	okProto := false
	for _, pr := range exp.Protos {
		if u.Proto == pr {
			okProto = true
		}
	}
	if u.Scheme != exp.Scheme || u.Host != exp.Host || u.Port != exp.Port || !okProto {
		c.Violation("wrong-fields", fmt.Sprintf("ParseURI(%q) = %+v; components say scheme %v host %q port %d transport in %v", s, *u, exp.Scheme, exp.Host, exp.Port, exp.Protos), rp)
		return
	}
	c.Outcome(fmt.Sprintf("accept/%v/%v", u.Scheme, u.Proto))
	if len(c.Res.Samples) < 2 && p.Port != "" && p.Query != "" {
		c.Sample(map[string]interface{}{"uri": s, "parsed": fmt.Sprintf("%+v", *u)})
	}
}

// ---- DialURI on an injected network ----

type recConn struct {
	mu      sync.Mutex
	writes  [][]byte
	closed  chan struct{}
	once    sync.Once
	first   chan struct{}
	network string
	addr    string
}

func newRecConn(network, addr string) *recConn {
	return &recConn{closed: make(chan struct{}), first: make(chan struct{}, 1), network: network, addr: addr}
}

func (r *recConn) Read(b []byte) (int, error) { <-r.closed; return 0, net.ErrClosed }
func (r *recConn) Write(b []byte) (int, error) {
	r.mu.Lock()
	r.writes = append(r.writes, append([]byte(nil), b...))
	r.mu.Unlock()
	select {
	case r.first <- struct{}{}:
	default:
	}
	return len(b), nil
}
func (r *recConn) Close() error                       { r.once.Do(func() { close(r.closed) }); return nil }
func (r *recConn) LocalAddr() net.Addr                { return &net.UDPAddr{IP: net.IPv4(127, 0, 0, 1), Port: 1} }
func (r *recConn) RemoteAddr() net.Addr               { return &net.UDPAddr{IP: net.IPv4(127, 0, 0, 1), Port: 2} }
func (r *recConn) SetDeadline(t time.Time) error      { return nil }
func (r *recConn) SetReadDeadline(t time.Time) error  { return nil }
func (r *recConn) SetWriteDeadline(t time.Time) error { return nil }
func (r *recConn) SetReadBuffer(int) error            { return nil }
func (r *recConn) SetWriteBuffer(int) error           { return nil }
func (r *recConn) ReadFrom(p []byte) (int, net.Addr, error) {
	<-r.closed
	return 0, nil, net.ErrClosed
}
func (r *recConn) ReadFromUDP(b []byte) (int, *net.UDPAddr, error) {
	<-r.closed
	return 0, nil, net.ErrClosed
}
func (r *recConn) ReadMsgUDP(b, oob []byte) (int, int, int, *net.UDPAddr, error) {
	<-r.closed
	return 0, 0, 0, nil, net.ErrClosed
}
func (r *recConn) WriteTo(p []byte, addr net.Addr) (int, error)        { return r.Write(p) }
func (r *recConn) WriteToUDP(b []byte, addr *net.UDPAddr) (int, error) { return r.Write(b) }
func (r *recConn) WriteMsgUDP(b, oob []byte, addr *net.UDPAddr) (int, int, error) {
	n, err := r.Write(b)
	return n, 0, err
}

type recNet struct {
	transport.Net // nil: any other method panics and is reported
	mu            sync.Mutex
	dials         []string
	conns         []*recConn
}

func (n *recNet) Dial(network, address string) (net.Conn, error) {
	n.mu.Lock()
	defer n.mu.Unlock()
	n.dials = append(n.dials, "Dial "+network+" "+address)
	c := newRecConn(network, address)
	n.conns = append(n.conns, c)
	return c, nil
}

func (n *recNet) DialUDP(network string, laddr, raddr *net.UDPAddr) (transport.UDPConn, error) {
	n.mu.Lock()
	defer n.mu.Unlock()
	n.dials = append(n.dials, "DialUDP "+network+" "+raddr.String())
	c := newRecConn(network, raddr.String())
	n.conns = append(n.conns, c)
	return c, nil
}

// pipeNet hands DialURI one end of an in-memory pipe; the other end is a TLS server.
type pipeNet struct {
	transport.Net
	server net.Conn
}

func (n *pipeNet) Dial(network, address string) (net.Conn, error) {
	c, s := net.Pipe()
	n.server = s
	return c, nil
}

// c17Cert makes a CA and a server certificate whose only subject alternative name is host (an IP SAN for an IP
// literal, a DNS SAN otherwise).
func c17Cert(host string) (tls.Certificate, *x509.CertPool, error) {
	caKey, err := ecdsa.GenerateKey(elliptic.P256(), rand.Reader)
	if err != nil {
		return tls.Certificate{}, nil, err
	}
	caT := &x509.Certificate{SerialNumber: big.NewInt(1), Subject: pkix.Name{CommonName: "c17 ca"}, NotBefore: time.Now().Add(-time.Hour), NotAfter: time.Now().Add(time.Hour),
		IsCA: true, KeyUsage: x509.KeyUsageCertSign, BasicConstraintsValid: true}
	caDER, err := x509.CreateCertificate(rand.Reader, caT, caT, &caKey.PublicKey, caKey)
	if err != nil {
		return tls.Certificate{}, nil, err
	}
	ca, _ := x509.ParseCertificate(caDER)
	key, _ := ecdsa.GenerateKey(elliptic.P256(), rand.Reader)
	t := &x509.Certificate{SerialNumber: big.NewInt(2), Subject: pkix.Name{CommonName: "c17 server"}, NotBefore: time.Now().Add(-time.Hour), NotAfter: time.Now().Add(time.Hour),
		KeyUsage: x509.KeyUsageDigitalSignature, ExtKeyUsage: []x509.ExtKeyUsage{x509.ExtKeyUsageServerAuth}}
	if ip := net.ParseIP(host); ip != nil {
		t.IPAddresses = []net.IP{ip}
	} else {
		t.DNSNames = []string{host}
	}
	der, err := x509.CreateCertificate(rand.Reader, t, ca, &key.PublicKey, caKey)
	if err != nil {
		return tls.Certificate{}, nil, err
	}
	pool := x509.NewCertPool()
	pool.AddCert(ca)
	return tls.Certificate{Certificate: [][]byte{der}, PrivateKey: key}, pool, nil
}

// c17TLSHandshake: "TLS over TCP with the host as server name" is observable only by verifying: a server that
// presents a certificate valid for exactly the URI's host (and nothing else) must be accepted by the client DialURI
// built, with certificate verification on. The client is configured with the CA only.
func c17TLSHandshake(c *Ctx, scheme int, host string) {
	c.Eval(1)
	rp := map[string]interface{}{"kind": "tls", "dial": c17Dial{Scheme: scheme, Proto: int(stun.ProtoTypeTCP), Host: host, Port: 5349}}
	cert, pool, err := c17Cert(host)
	if err != nil {
		c.Fail("certificate: %v", err)
	}
	nw := &pipeNet{}
	u := &stun.URI{Scheme: stun.SchemeType(scheme), Proto: stun.ProtoTypeTCP, Host: host, Port: 5349}
	var cl *stun.Client
	if pn := catch(func() {
		cl, err = stun.DialURI(u, &stun.DialConfig{Net: nw, TLSConfig: tls.Config{RootCAs: pool, MinVersion: tls.VersionTLS12}})
	}); pn != "" || err != nil || nw.server == nil {
		c.Violation("dial-tls", fmt.Sprintf("DialURI(%+v) with a TLS configuration: %v %s", *u, err, pn), rp)
		return
	}
	srv := tls.Server(nw.server, &tls.Config{Certificates: []tls.Certificate{cert}, MinVersion: tls.VersionTLS12})
	_ = nw.server.SetDeadline(time.Now().Add(10 * time.Second))
	done := make(chan error, 1)
	go func() { done <- srv.Handshake() }()
	ierr := make(chan error, 1)
	go func() { ierr <- cl.Indicate(stun.MustBuild(stun.BindingRequest, stun.TransactionID)) }()
	var herr error
	select {
	case herr = <-done:
	case <-time.After(12 * time.Second):
		herr = errors.New("no handshake within 12 s")
	}
	var werr error
	select {
	case werr = <-ierr:
	case <-time.After(2 * time.Second):
	}
	_ = nw.server.Close()
	go cl.Close()
	if herr != nil || werr != nil {
		c.Violation("secure-scheme-server-name", fmt.Sprintf("DialURI(%+v): the TLS handshake with a server whose certificate is valid for exactly %q failed (server: %v, client write: %v): the client does not verify the connection against the URI's host", *u, host, herr, werr), rp)
		return
	}
	c.Outcome("tls-handshake-verified")
}

type c17Dial struct {
	Scheme int    `json:"scheme"`
	Proto  int    `json:"proto"`
	Host   string `json:"host"`
	Port   int    `json:"port"`
	// Before: ports of dials of the same scheme, transport and host that this process made just before (a dial
	// must not inherit anything from an earlier one)
	Before []int `json:"before,omitempty"`
}

func looksLikeSTUN(b []byte) bool {
	return len(b) >= 20 && b[0]&0xC0 == 0 && bytes.Equal(b[4:8], []byte{0x21, 0x12, 0xA4, 0x42})
}

// c17DialCheck dials one URI value on the recording network.
func c17DialCheck(c *Ctx, d c17Dial) {
	c.Eval(1)
	c.DistinctBytes([]byte(fmt.Sprintf("dial %+v", d)))
	rp := map[string]interface{}{"kind": "dial", "dial": d}
	for _, bp := range d.Before {
		bu := &stun.URI{Scheme: stun.SchemeType(d.Scheme), Proto: stun.ProtoType(d.Proto), Host: d.Host, Port: bp}
		_ = catch(func() {
			if bc, berr := stun.DialURI(bu, &stun.DialConfig{Net: &recNet{}}); berr == nil && bc != nil {
				bc.Close()
			}
		})
	}
	u := &stun.URI{Scheme: stun.SchemeType(d.Scheme), Proto: stun.ProtoType(d.Proto), Host: d.Host, Port: d.Port}
	nw := &recNet{}
	var cl *stun.Client
	var err error
	if pn := catch(func() { cl, err = stun.DialURI(u, &stun.DialConfig{Net: nw}) }); pn != "" {
		c.Violation("dial-panic", fmt.Sprintf("DialURI(%+v) %s", *u, pn), rp)
		return
	}
	secure := u.Scheme == stun.SchemeTypeSTUNS || u.Scheme == stun.SchemeTypeTURNS
	addr := net.JoinHostPort(d.Host, fmt.Sprint(d.Port))
	// which transport does the URI denote?
	wantNet, wantSecure, supported := "", false, true
	switch {
	case u.Scheme == stun.SchemeTypeSTUN:
		wantNet = "udp" // ParseURI only produces stun+UDP; for hand-made values only "not secure" matters
	case u.Scheme == stun.SchemeTypeTURN:
		wantNet = "udp"
		if u.Proto == stun.ProtoTypeTCP {
			wantNet = "tcp"
		}
	case u.Scheme == stun.SchemeTypeSTUNS && u.Proto == stun.ProtoTypeTCP:
		wantNet, wantSecure = "tcp", true
	case u.Scheme == stun.SchemeTypeTURNS && u.Proto == stun.ProtoTypeTCP:
		wantNet, wantSecure = "tcp", true
	case u.Scheme == stun.SchemeTypeTURNS && u.Proto == stun.ProtoTypeUDP:
		wantNet, wantSecure = "udp", true
	default:
		supported = false
	}
	if !supported {
		if cl != nil {
			cl.Close()
		}
		if !errors.Is(err, stun.ErrUnsupportedURI) || len(nw.dials) != 0 {
			c.Violation("unsupported-combination-dialed", fmt.Sprintf("DialURI(%+v): err=%v dials=%v; want ErrUnsupportedURI and no dial", *u, err, nw.dials), rp)
			return
		}
		c.Outcome("dial/unsupported")
		return
	}
	if err != nil || cl == nil {
		c.Violation("dial-fails", fmt.Sprintf("DialURI(%+v) = %v", *u, err), rp)
		return
	}
	defer cl.Close()
	if len(nw.dials) != 1 {
		c.Violation("dial-count", fmt.Sprintf("DialURI(%+v) dialled %v", *u, nw.dials), rp)
		return
	}
	conn := nw.conns[0]
	producible := (u.Scheme == stun.SchemeTypeSTUN && u.Proto == stun.ProtoTypeUDP) || u.Scheme == stun.SchemeTypeTURN || secure
	if producible && (conn.network != wantNet || !sameHostPort(conn.addr, addr)) {
		c.Violation("dial-target", fmt.Sprintf("DialURI(%+v) dialled %v; the URI denotes %s %s", *u, nw.dials, wantNet, addr), rp)
		return
	}
	// Force the first bytes out.
	msg := stun.MustBuild(stun.TransactionID, stun.BindingRequest)
	indErr := make(chan error, 1)
	go func() { indErr <- cl.Indicate(msg) }()
	select {
	case <-conn.first:
	case ie := <-indErr:
		select {
		case <-conn.first:
		default:
			// the client gave up before it wrote a single byte: conclusive, no timing involved
			c.Violation("dial-cannot-send", fmt.Sprintf("DialURI(%+v): the first Indicate returned %v and nothing was written to the dialled connection", *u, ie), rp)
			return
		}
	case <-time.After(20 * time.Second):
		c.Fail("DialURI(%+v): nothing was written to the connection within 20 s (harness cannot decide)", *u)
	}
	conn.mu.Lock()
	first := append([]byte(nil), conn.writes[0]...)
	conn.mu.Unlock()
	if wantSecure {
		if looksLikeSTUN(first) {
			c.Violation("secure-scheme-in-plaintext", fmt.Sprintf("DialURI(%+v): first bytes on the wire are a plaintext STUN header: %x", *u, clip(first)), rp)
			return
		}
		isTLS := wantNet == "tcp" && len(first) > 5 && first[0] == 0x16 && first[1] == 0x03
		isDTLS := wantNet == "udp" && len(first) > 13 && first[0] == 0x16 && first[1] == 0xFE
		if !isTLS && !isDTLS {
			c.Violation("secure-scheme-no-handshake", fmt.Sprintf("DialURI(%+v): first record is not a TLS/DTLS handshake: %x", *u, clip(first)), rp)
			return
		}
		bare := d.Host
		if i := strings.IndexByte(bare, '%'); i >= 0 {
			bare = bare[:i] // an IPv6 literal with a zone is an IP literal (TLS sends no server name for it)
		}
		if net.ParseIP(bare) == nil {
			// server name: <type 0> <len16> <name> inside the ClientHello
			pat := append([]byte{0x00, byte(len(d.Host) >> 8), byte(len(d.Host))}, d.Host...)
			if !bytes.Contains(first, pat) {
				c.Violation("secure-scheme-sni", fmt.Sprintf("DialURI(%+v): ClientHello does not carry %q as server name", *u, d.Host), rp)
				return
			}
		}
		c.Outcome("dial/secure-" + wantNet)
	} else {
		if !looksLikeSTUN(first) && u.Scheme != stun.SchemeTypeSTUN && u.Scheme != stun.SchemeTypeTURN {
			c.Violation("plaintext-garbled", fmt.Sprintf("DialURI(%+v): first bytes %x", *u, clip(first)), rp)
			return
		}
		if !bytes.Equal(first, msg.Raw) {
			c.Violation("plaintext-garbled", fmt.Sprintf("DialURI(%+v): first bytes %x are not the indication %x", *u, clip(first), clip(msg.Raw)), rp)
			return
		}
		c.Outcome("dial/plain-" + conn.network)
	}
	conn.Close()
	select {
	case <-indErr:
	case <-time.After(20 * time.Second):
	}
}

// c17DialReuse: one DialConfig used for two secure TCP dials to different hosts, and a DialConfig whose
// TLSConfig.ServerName is preset: the server name on the wire must be the host of the URI being dialled.
func c17DialReuse(c *Ctx, scheme int, preset bool) {
	c.Eval(1)
	c.DistinctBytes([]byte(fmt.Sprintf("dialreuse %d %v", scheme, preset)))
	rp := map[string]interface{}{"kind": "dialreuse", "scheme": scheme, "preset": preset}
	nw := &recNet{}
	cfg := &stun.DialConfig{Net: nw}
	hosts := []string{"first.example.org", "second.example.net"}
	if preset {
		cfg.TLSConfig.ServerName = "preset.example.com"
		hosts = hosts[:1]
	}
	for i, h := range hosts {
		u := &stun.URI{Scheme: stun.SchemeType(scheme), Proto: stun.ProtoTypeTCP, Host: h, Port: 5349}
		var cl *stun.Client
		var err error
		if pn := catch(func() { cl, err = stun.DialURI(u, cfg) }); pn != "" || err != nil {
			c.Violation("dial-fails", fmt.Sprintf("DialURI(%+v) on a reused DialConfig: %v %s", *u, err, pn), rp)
			return
		}
		conn := nw.conns[i]
		go func() { _ = cl.Indicate(stun.MustBuild(stun.TransactionID, stun.BindingRequest)) }()
		select {
		case <-conn.first:
		case <-time.After(20 * time.Second):
			c.Fail("DialURI(%+v): nothing written within 20 s", *u)
		}
		conn.mu.Lock()
		first := append([]byte(nil), conn.writes[0]...)
		conn.mu.Unlock()
		pat := append([]byte{0x00, byte(len(h) >> 8), byte(len(h))}, h...)
		if !bytes.Contains(first, pat) {
			c.Violation("secure-scheme-sni", fmt.Sprintf("dial %d with a shared DialConfig (preset ServerName: %v): ClientHello does not carry %q as server name", i+1, preset, h), rp)
			conn.Close()
			cl.Close()
			return
		}
		conn.Close()
		cl.Close()
	}
	c.Outcome("dial/reuse-ok")
}

func sameHostPort(a, b string) bool {
	ha, pa, e1 := net.SplitHostPort(a)
	hb, pb, e2 := net.SplitHostPort(b)
	if e1 != nil || e2 != nil {
		return a == b
	}
	ia, ib := net.ParseIP(ha), net.ParseIP(hb)
	if ia != nil && ib != nil {
		return ia.Equal(ib) && pa == pb
	}
	if hb == "localhost" && ia != nil && ia.IsLoopback() {
		return pa == pb
	}
	return ha == hb && pa == pb
}

// c17V6 checks one bracketed IPv6 literal URI: sound, round trip, and the host is the text between the brackets.
func c17V6(c *Ctx, s string) {
	rp := map[string]interface{}{"kind": "v6", "s": s}
	c.Eval(1)
	c.DistinctByConstruction++
	var u *stun.URI
	var err error
	if pn := catch(func() { u, err = stun.ParseURI(s) }); pn != "" {
		c.Violation("panic", fmt.Sprintf("ParseURI(%q) %s", s, pn), rp)
		return
	}
	if err != nil {
		c.Outcome("v6/reject")
		return
	}
	if k, msg := uriSoundK(s, u); msg != "" {
		c.Violation(k, msg, rp)
		return
	}
	if want := s[strings.Index(s, "[")+1 : strings.Index(s, "]")]; u.Host != want {
		c.Violation("wrong-fields", fmt.Sprintf("ParseURI(%q) has host %q, the text between the brackets is %q", s, u.Host, want), rp)
		return
	}
	c.Outcome("v6/accept")
}

func init() {
	registry["C17"] = propImpl{
		Run: func(c *Ctx) {
			var i int64
			for _, sc := range c17Schemes {
				for _, h := range c17Hosts {
					for _, p := range c17Ports {
						for _, q := range c17Queries {
							i++
							if c.Mine(i) {
								c17Grammar(c, uriParts{sc, h, p, q})
							}
						}
					}
				}
			}
			// invariants + round trip on the whole Sigma^<=L space of C16
			maxLen := 4
			if c.Thorough() {
				maxLen = 5
			}
			total := c16Count(maxLen) * int64(len(c16Prefixes))
			for k := int64(c.Shard); k < total; k += int64(c.NShards) {
				s := c16Item(k, maxLen)
				c.Eval(1)
				c.DistinctByConstruction++
				var u *stun.URI
				var err error
				if pn := catch(func() { u, err = stun.ParseURI(s) }); pn != "" {
					c.Violation("panic", fmt.Sprintf("ParseURI(%q) %s", s, pn), map[string]interface{}{"kind": "string", "s": s})
					continue
				}
				if err != nil {
					c.Outcome("sigma/reject")
					continue
				}
				if k, msg := uriSoundK(s, u); msg != "" {
					c.Violation(k, msg, map[string]interface{}{"kind": "string", "s": s})
					continue
				}
				c.Outcome("sigma/accept")
			}
			// the IPv6 literal shapes of C16
			for k, s := range c16V6() {
				if c.Mine(int64(k)) {
					c17V6(c, s)
				}
			}
			// DialURI: all 5x3 hand-made combinations x hosts, on shard 0..k
			hosts := []struct {
				h string
				p int
			}{{"127.0.0.1", 3478}, {"localhost", 5349}, {"::1", 1}, {"127.0.0.1", 0}, {"localhost", 65535}, {"fe80::1%eth0", 5349}, {"fe80::2%25", 3478}}
			var j int64
			for sc := 0; sc <= 4; sc++ {
				for pr := 0; pr <= 2; pr++ {
					for _, hp := range hosts {
						j++
						if c.Mine(j) {
							c17DialCheck(c, c17Dial{Scheme: sc, Proto: pr, Host: hp.h, Port: hp.p})
						}
					}
				}
			}
			// the same host dialed again with another port / after another host, in one process
			for sc := 0; sc <= 4; sc++ {
				for pr := 0; pr <= 2; pr++ {
					for _, host := range []string{"localhost", "127.0.0.1", "::1"} {
						j++
						if c.Mine(j) {
							c17DialCheck(c, c17Dial{Scheme: sc, Proto: pr, Host: host, Port: 5350, Before: []int{5349}})
							c17DialCheck(c, c17Dial{Scheme: sc, Proto: pr, Host: host, Port: 443, Before: []int{5349, 5350, 1}})
						}
					}
				}
			}
			// TLS handshakes against a server certificate for exactly the URI's host: names and IP literals
			for _, scheme := range []int{int(stun.SchemeTypeSTUNS), int(stun.SchemeTypeTURNS)} {
				for _, host := range []string{"example.org", "localhost", "192.0.2.7", "::1", "2001:db8::7"} {
					j++
					if c.Mine(j) {
						c17TLSHandshake(c, scheme, host)
					}
				}
			}
			for _, scheme := range []int{int(stun.SchemeTypeSTUNS), int(stun.SchemeTypeTURNS)} {
				for _, preset := range []bool{false, true} {
					j++
					if c.Mine(j) {
						c17DialReuse(c, scheme, preset)
					}
				}
			}
			c.Extra("sigma_max_length", float64(maxLen))
			c.Extra("grammar_product", []int{len(c17Schemes), len(c17Hosts), len(c17Ports), len(c17Queries)})
		},
		Replay: func(c *Ctx, p json.RawMessage) {
			var r struct {
				Kind  string   `json:"kind"`
				Parts uriParts `json:"parts"`
				S     string   `json:"s"`
				Dial  c17Dial  `json:"dial"`
			}
			if err := json.Unmarshal(p, &r); err != nil {
				c.Fail("%v", err)
			}
			switch r.Kind {
			case "grammar":
				c17Grammar(c, r.Parts)
			case "string":
				var u *stun.URI
				var err error
				if pn := catch(func() { u, err = stun.ParseURI(r.S) }); pn != "" {
					c.Violation("panic", fmt.Sprintf("ParseURI(%q) %s", r.S, pn), map[string]interface{}{"kind": "string", "s": r.S})
					return
				}
				if err == nil {
					if k, msg := uriSoundK(r.S, u); msg != "" {
						c.Violation(k, msg, map[string]interface{}{"kind": "string", "s": r.S})
					}
				}
			case "v6":
				c17V6(c, r.S)
			case "dial":
				c17DialCheck(c, r.Dial)
			case "tls":
				c17TLSHandshake(c, r.Dial.Scheme, r.Dial.Host)
			case "dialreuse":
				var rr struct {
					Scheme int  `json:"scheme"`
					Preset bool `json:"preset"`
				}
				_ = json.Unmarshal(p, &rr)
				c17DialReuse(c, rr.Scheme, rr.Preset)
			}
		},
	}
}

func init() {
	var qs []string
	for q := range c17NearMissTransports {
		qs = append(qs, q)
	}
	sort.Strings(qs)
	c17Queries = append(c17Queries, qs...)
}
