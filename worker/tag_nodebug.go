//go:build !debug

package main

const libDebug = false
