package main

import (
	"bytes"
	"fmt"

	stun "github.com/pion/stun/v3"
)

// Two objects obtained from the library are independent of each other: whatever happens to one Message must not
// show in another. The checks create the Message under test BETWEEN two others that come from the same constructor
// (stun.New), hold a known message, and are compared with it afterwards.

var neighbourMsg = func() []byte {
	m := stun.MustBuild(stun.BindingSuccess, stun.NewTransactionIDSetter([12]byte{0x6e, 0x62, 0x72}),
		stun.NewSoftware("neighbour message: must stay exactly as it is"), stun.NewUsername("neighbour-user"), stun.Fingerprint)
	if len(m.Raw) > 120 || len(m.Raw) < 100 {
		panic(fmt.Sprintf("neighbourMsg is %d bytes, want 100..120 (what stun.New reserves)", len(m.Raw)))
	}
	return append([]byte(nil), m.Raw...)
}()

type msgNeighbours struct {
	ms   []*stun.Message
	want string
}

func renderMsg(m *stun.Message) string {
	s := fmt.Sprintf("%v|%d|%x|%x|", m.Type, m.Length, m.TransactionID, m.Raw)
	for _, a := range m.Attributes {
		s += fmt.Sprintf("%x:%d:%x,", uint16(a.Type), a.Length, a.Value)
	}
	return s
}

func newNeighbour() *stun.Message {
	n := stun.New()
	if _, err := n.Write(neighbourMsg); err != nil {
		panic("neighbour message does not decode: " + err.Error())
	}
	return n
}

// newBetweenNeighbours returns a Message from stun.New() created between two neighbours.
func newBetweenNeighbours() (*stun.Message, *msgNeighbours) {
	nb := &msgNeighbours{}
	a := newNeighbour()
	m := stun.New()
	b := newNeighbour()
	nb.ms = []*stun.Message{a, b}
	nb.want = renderMsg(a)
	if renderMsg(b) != nb.want || !bytes.Equal(a.Raw, neighbourMsg) {
		panic("neighbours differ from the start")
	}
	return m, nb
}

// changed reports which neighbour no longer holds its message ("" if both do).
func (nb *msgNeighbours) changed() string {
	if nb == nil {
		return ""
	}
	for i, n := range nb.ms {
		if got := renderMsg(n); got != nb.want {
			return fmt.Sprintf("the Message created by stun.New() %s the one under test no longer holds what it decoded: Raw now %x", []string{"before", "after"}[i], clip(n.Raw))
		}
	}
	return ""
}
