//go:build vsched

package main

import (
	"fmt"
	"sort"
	"strings"
	"time"

	"github.com/pion/stun/v3/zzverif/sched"
	"github.com/pion/stun/v3/zzverif/vatomic"
	"github.com/pion/stun/v3/zzverif/vsync"

	"verif/mc/explore"
)

// Engine self-test. A model checker that has never failed has not been shown to work: before any verdict of a
// scheduler-based check is believed, the scheduler shims and the explorer are run on small programs whose complete
// behaviour is known in closed form - the exact set of interleavings per preemption bound, a lock-order deadlock,
// a lost wake-up, writer preference of RWMutex, every answer of the pool and of map iteration, livelock of a
// spinner, replay of a recorded schedule and rejection of a schedule that does not fit. A failure is a harness
// error (exit 2), never a verdict.

type selfProg struct {
	name string
	cfg  sched.Config
	body func(obs *[]string)
}

func (p selfProg) run() explore.RunFunc {
	return func(prefix []int) (*sched.Result, []explore.Finding, string) {
		var obs []string
		cfg := p.cfg
		cfg.Prefix = prefix
		res := sched.Run(cfg, func() { p.body(&obs) })
		return res, nil, res.Status + ":" + strings.Join(obs, " ")
	}
}

// outcomes explores p and returns the sorted distinct outcomes and the number of executions.
func (p selfProg) outcomes(pb, env int) ([]string, int64, string) {
	st := explore.Explore(p.run(), explore.Options{Preemptions: pb, EnvDevs: env})
	if st.HarnessError != "" {
		return nil, 0, st.HarnessError
	}
	if !st.Complete {
		return nil, 0, "incomplete"
	}
	var out []string
	for o := range st.Outcomes {
		out = append(out, o)
	}
	sort.Strings(out)
	return out, st.Executions, ""
}

func selfTest() (programs int, executions int64, failure string) {
	check := func(name string, got []string, n int64, herr string, want []string, wantExec int64) {
		programs++
		executions += n
		if failure != "" {
			return
		}
		sort.Strings(want)
		if herr != "" {
			failure = name + ": " + herr
			return
		}
		if strings.Join(got, "|") != strings.Join(want, "|") {
			failure = fmt.Sprintf("%s: outcomes %q, want %q", name, got, want)
			return
		}
		if wantExec >= 0 && n != wantExec {
			failure = fmt.Sprintf("%s: %d executions, want %d (every schedule exactly once)", name, n, wantExec)
		}
	}
	// 1. two threads x two atomic steps: the interleavings reachable with 0, 1 and 2 preemptions, each exactly once
	inter := selfProg{name: "interleavings", body: func(obs *[]string) {
		var x vatomic.Int32
		for _, t := range []string{"A", "B"} {
			t := t
			sched.Spawn(t, func() {
				*obs = append(*obs, t+"0") // a thread's start is a step of its own
				v := x.Load()
				*obs = append(*obs, t+"1")
				x.Store(v + 1)
				*obs = append(*obs, t+"2")
			})
		}
	}}
	// expected: every interleaving of A0 A1 A2 with B0 B1 B2 whose number of preemptions (switching away from a
	// thread that has steps left) is within the bound - computed here by plain enumeration, independently of the engine
	want := func(bound int) []string {
		var out []string
		var rec func(a, b, last, pre int, cur []string)
		rec = func(a, b, last, pre int, cur []string) {
			if a == 3 && b == 3 {
				out = append(out, "done:"+strings.Join(cur, " "))
				return
			}
			if a < 3 {
				p := pre
				if last == 1 && b < 3 {
					p++
				}
				if p <= bound {
					rec(a+1, b, 0, p, append(append([]string(nil), cur...), fmt.Sprint("A", a)))
				}
			}
			if b < 3 {
				p := pre
				if last == 0 && a < 3 {
					p++
				}
				if p <= bound {
					rec(a, b+1, 1, p, append(append([]string(nil), cur...), fmt.Sprint("B", b)))
				}
			}
		}
		rec(0, 0, -1, 0, nil)
		return out
	}
	var o []string
	var n int64
	var h string
	for bound := 0; bound <= 5; bound++ {
		w := want(bound)
		if (bound == 0 && len(w) != 2) || (bound >= 4 && len(w) != 20) { // 20 = C(6,3); the worst order needs 4 preemptions
			failure = fmt.Sprintf("self-test arithmetic: %d interleavings within %d preemptions", len(w), bound)
		}
		o, n, h = inter.outcomes(bound, -1)
		check(fmt.Sprintf("interleavings/pb%d", bound), o, n, h, w, int64(len(w)))
	}
	// 2. the lost update is found from one preemption on, and not before
	lost := selfProg{name: "lost-update", body: func(obs *[]string) {
		var x vatomic.Int32
		var wg vsync.WaitGroup
		for i := 0; i < 2; i++ {
			wg.Add(1)
			sched.Spawn(fmt.Sprint("T", i), func() {
				v := x.Load()
				x.Store(v + 1)
				wg.Done()
			})
		}
		wg.Wait()
		*obs = append(*obs, fmt.Sprint("x=", x.Load()))
	}}
	o, n, h = lost.outcomes(0, -1)
	check("lost-update/pb0", o, n, h, []string{"done:x=2"}, -1)
	o, n, h = lost.outcomes(1, -1)
	check("lost-update/pb1", o, n, h, []string{"done:x=1", "done:x=2"}, -1)
	// 3. lock-order inversion: no deadlock without a preemption, a deadlock with one
	abba := selfProg{name: "abba", body: func(obs *[]string) {
		var a, b vsync.Mutex
		sched.Spawn("A", func() { a.Lock(); b.Lock(); b.Unlock(); a.Unlock() })
		sched.Spawn("B", func() { b.Lock(); a.Lock(); a.Unlock(); b.Unlock() })
	}}
	o, n, h = abba.outcomes(0, -1)
	check("abba/pb0", o, n, h, []string{"done:"}, -1)
	o, n, h = abba.outcomes(1, -1)
	check("abba/pb1", o, n, h, []string{"deadlock:", "done:"}, -1)
	// 4. condition variable: the flag is read outside the lock => lost wake-up; read under the lock => none
	for _, buggy := range []bool{true, false} {
		buggy := buggy
		cv := selfProg{name: "cond", body: func(obs *[]string) {
			var mu vsync.Mutex
			cond := vsync.NewCond(&mu)
			var flag vatomic.Bool
			sched.Spawn("waiter", func() {
				if buggy {
					if !flag.Load() {
						mu.Lock()
						cond.Wait()
						mu.Unlock()
					}
					return
				}
				mu.Lock()
				for !flag.Load() {
					cond.Wait()
				}
				mu.Unlock()
			})
			sched.Spawn("signaller", func() {
				if buggy {
					flag.Store(true)
					cond.Signal()
					return
				}
				mu.Lock()
				flag.Store(true)
				cond.Signal()
				mu.Unlock()
			})
		}}
		o, n, h = cv.outcomes(2, -1)
		if buggy {
			check("cond/lost-wakeup", o, n, h, []string{"deadlock:", "done:"}, -1)
		} else {
			check("cond/correct", o, n, h, []string{"done:"}, -1)
		}
	}
	// 5. RWMutex: a waiting writer goes before a reader that arrives later (Go's writer preference)
	rw := selfProg{name: "rwmutex", body: func(obs *[]string) {
		var m vsync.RWMutex
		step := 0 // plain variable: the cooperative scheduler runs one thread at a time
		m.RLock() // reader 1 holds the lock
		sched.Spawn("writer", func() {
			step = 1
			m.Lock()
			*obs = append(*obs, "W")
			m.Unlock()
		})
		sched.Spawn("reader2", func() {
			sched.Point("wait for the writer to queue", func() bool { return step >= 2 })
			m.RLock()
			*obs = append(*obs, "R2")
			m.RUnlock()
		})
		sched.Spawn("releaser", func() {
			sched.Point("wait for the writer", func() bool { return step >= 1 })
			sched.Yield("let the writer queue") // a yielding thread runs only when nothing else can
			step = 2
			sched.Yield("let reader2 block behind the writer")
			m.RUnlock()
		})
	}}
	o, n, h = rw.outcomes(0, -1)
	check("rwmutex/writer-preference", o, n, h, []string{"done:W R2"}, -1)
	// 5b. TryLock sees a held lock only when acquisitions are followed by a "holding" point (switched on for libraries
	// that use Try methods)
	for _, hp := range []bool{false, true} {
		hp := hp
		tl := selfProg{name: "trylock", body: func(obs *[]string) {
			old := vsync.HoldPoints
			vsync.HoldPoints = hp
			sched.OnEnd(func() { vsync.HoldPoints = old })
			var mu vsync.Mutex
			sched.Spawn("holder", func() { mu.Lock(); mu.Unlock() })
			sched.Spawn("trier", func() {
				if mu.TryLock() {
					*obs = append(*obs, "got")
					mu.Unlock()
				} else {
					*obs = append(*obs, "busy")
				}
			})
		}}
		o, n, h = tl.outcomes(2, -1)
		if hp {
			check("trylock/hold-points", o, n, h, []string{"done:busy", "done:got"}, -1)
		} else {
			check("trylock/acquire-points-only", o, n, h, []string{"done:got"}, -1)
		}
	}
	// 6. the pool's Get is every pooled object or a miss; map iteration is every permutation
	pool := selfProg{name: "pool", cfg: sched.Config{PoolFanout: true}, body: func(obs *[]string) {
		p := &vsync.Pool{New: func() interface{} { s := "new"; return &s }}
		a, b := "a", "b"
		p.Put(&a)
		p.Put(&b)
		*obs = append(*obs, *(p.Get().(*string)))
	}}
	o, n, h = pool.outcomes(0, -1)
	check("pool/fanout", o, n, h, []string{"done:a", "done:b", "done:new"}, 3)
	o, n, h = pool.outcomes(0, 0)
	check("pool/default-is-lifo", o, n, h, []string{"done:b"}, 1)
	mp := selfProg{name: "map", cfg: sched.Config{MapFanout: true}, body: func(obs *[]string) {
		m := map[int]bool{3: true, 1: true, 2: true}
		s := ""
		for _, k := range sched.MapKeys(m) {
			s += fmt.Sprint(k)
		}
		*obs = append(*obs, s)
	}}
	o, n, h = mp.outcomes(0, -1)
	check("map/fanout", o, n, h, []string{"done:123", "done:132", "done:213", "done:231", "done:312", "done:321"}, 6)
	o, n, h = mp.outcomes(0, 0)
	check("map/default-is-sorted", o, n, h, []string{"done:123"}, 1)
	// 7. waiting that never ends is reported, it does not hang the checker: a pure spinner is a livelock, a loop that
	// polls through an atomic runs into the step horizon; a spinner that is released finishes in every schedule
	for _, kind := range []string{"released", "forever-atomic", "forever-yield"} {
		kind := kind
		sp := selfProg{name: "spin", cfg: sched.Config{MaxSpin: 50, MaxSteps: 2000}, body: func(obs *[]string) {
			var flag vatomic.Bool
			stop := false
			sched.Spawn("spinner", func() {
				if kind == "forever-yield" {
					for !stop {
						sched.Yield("spin")
					}
					return
				}
				for !flag.Load() {
					sched.Yield("spin")
				}
			})
			if kind == "released" {
				sched.Spawn("setter", func() { flag.Store(true) })
			}
		}}
		o, n, h = sp.outcomes(2, -1)
		check("spin/"+kind, o, n, h, map[string][]string{"released": {"done:"}, "forever-atomic": {"horizon:"}, "forever-yield": {"livelock:"}}[kind], -1)
	}
	// 8. a panic on a managed thread is reported, not swallowed
	pn := selfProg{name: "panic", body: func(obs *[]string) {
		sched.Spawn("P", func() { var m map[int]int; m[1] = 1 })
	}}
	o, n, h = pn.outcomes(0, -1)
	check("panic", o, n, h, []string{"panic:"}, 1)
	// 8b. a thread that blocks on something the scheduler does not control (a bare channel) is reported as stuck, and
	// the next execution starts clean
	{
		old := sched.StuckAfter
		sched.StuckAfter = 1500 * time.Millisecond
		st := selfProg{name: "stuck", body: func(obs *[]string) {
			ch := make(chan struct{})
			sched.Spawn("S", func() { <-ch })
		}}
		o, n, h = st.outcomes(0, -1)
		check("stuck", o, n, h, []string{"stuck:"}, 1)
		sched.StuckAfter = old
		o, n, h = pn.outcomes(0, -1)
		check("panic-after-stuck", o, n, h, []string{"panic:"}, 1)
	}
	// 9. replay: a recorded schedule reproduces its observations; a schedule that does not fit is refused
	programs++
	if failure == "" {
		r1, _, o1 := inter.run()([]int{1, 1, 0, 1})
		r2, _, o2 := inter.run()([]int{1, 1, 0, 1})
		executions += 2
		if o1 != o2 || len(r1.Trace) != len(r2.Trace) {
			failure = fmt.Sprintf("replay: the same prefix gave %q then %q", o1, o2)
		}
		r3, _, _ := inter.run()([]int{7})
		executions++
		if failure == "" && r3.Status != sched.StatusDivergent {
			failure = "replay: an out-of-range choice was accepted (status " + r3.Status + ")"
		}
	}
	return
}

func init() {
	registry["SELF"] = propImpl{
		Run: func(c *Ctx) {
			np, ne, fail := selfTest()
			c.Eval(ne)
			c.DistinctByConstruction += ne
			c.Extra("selftest_programs", float64(np))
			c.Extra("selftest_executions", float64(ne))
			if fail != "" {
				c.Fail("engine self-test failed: %s", fail)
			}
			c.Outcome("selftest:ok")
			c.Sample("engine self-test passed")
		},
	}
}
