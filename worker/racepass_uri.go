//go:build race

package main

import (
	"fmt"
	"os"
	"os/exec"
	"strconv"
	"strings"
	"sync"

	stun "github.com/pion/stun/v3"
)

// C16 (free-running side pass, -race build only): ParseURI is a package-level function that callers use from
// many goroutines. A process-killing failure that needs two callers at once (fatal "concurrent map writes" on
// a shared table, a data race on shared parser state) cannot show in the single-threaded enumeration, so a
// child process parses distinct valid and invalid URIs on 8 goroutines under the race detector. The child is
// a separate process because such failures are runtime throws that recover() does not stop.

func c16ConcURIs() []string {
	var l []string
	for i := 0; i < 160; i++ {
		switch i % 5 {
		case 0:
			l = append(l, fmt.Sprintf("stun:host%d.example.org:%d", i, 1000+i))
		case 1:
			l = append(l, fmt.Sprintf("turn:host%d.example.org?transport=tcp", i))
		case 2:
			l = append(l, fmt.Sprintf("turns:[2001:db8::%x]:%d", i, 5000+i))
		case 3:
			l = append(l, fmt.Sprintf("stuns:h%d", i))
		default:
			l = append(l, fmt.Sprintf("turn:h%d:99999?transport=x", i)) // rejected
		}
	}
	return l
}

func init() {
	childFuncs["c16conc"] = func(c *Ctx, arg string) {
		rounds, _ := strconv.Atoi(arg)
		uris := c16ConcURIs()
		for r := 0; r < rounds; r++ {
			var wg sync.WaitGroup
			for g := 0; g < 8; g++ {
				g := g
				wg.Add(1)
				go func() {
					defer wg.Done()
					for k := range uris {
						s := uris[(k*7+g*13+r)%len(uris)]
						u, err := stun.ParseURI(s)
						if (u == nil) == (err == nil) {
							fmt.Printf("V 0 ParseURI(%q) returned uri=%v err=%v\n", s, u, err)
						}
						if u != nil {
							if u2, err2 := stun.ParseURI(u.String()); err2 != nil || *u2 != *u {
								fmt.Printf("V 0 concurrent round trip of %q: %+v -> %v %v\n", s, *u, u2, err2)
							}
						}
					}
				}()
			}
			wg.Wait()
		}
		fmt.Println("D", rounds)
	}
	run := func(c *Ctx) {
		rounds := 40
		if c.Thorough() {
			rounds = 400
		}
		exe, _ := os.Executable()
		out, err := exec.Command(exe, "-child", "c16conc:"+strconv.Itoa(rounds)).CombinedOutput()
		c.Eval(int64(rounds) * 8 * int64(len(c16ConcURIs())))
		if err != nil && !strings.Contains(string(out), "DATA RACE") {
			c.Res.Violations = append(c.Res.Violations, raceViolation(c16CrashKey(string(out))+"/concurrent-callers", "8 goroutines calling ParseURI kill the process: "+c16CrashLine(string(out))))
		}
		for _, l := range strings.Split(string(out), "\n") {
			if strings.HasPrefix(l, "V ") {
				c.Res.Violations = append(c.Res.Violations, raceViolation("concurrent-callers/bad-result", l[4:]))
				break
			}
		}
		racePassFinish(c, int64(rounds), "8 goroutines x 160 distinct URIs per round in a child process under the race detector")
	}
	registry["C16"] = propImpl{Run: run, Replay: racePassReplay(run)}
}
