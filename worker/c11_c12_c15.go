//go:build vsched

package main

import (
	"fmt"
	"time"
)

func init() {
	// ---- C11: retransmissions are bit-identical, bounded and on schedule ----
	registry["C11"] = propImpl{
		Run: func(c *Ctx) {
			depth := 5
			if c.Thorough() {
				depth = 7
			}
			alpha := []cliEv{
				{K: "start", I: 0}, {K: "overwrite", I: 0}, {K: "setrto", Arg: 1},
				{K: "tick", Arg: 0}, {K: "tick", Arg: 1}, {K: "tick", Arg: 2}, {K: "tick", Arg: 3},
				{K: "resp", I: 0}, {K: "failwrite"}, {K: "close"},
				{K: "garbage", Arg: 3}, // a datagram with A's id whose first attribute overruns: dropped, the schedule goes on
				{K: "readerr", Arg: 3}, // the peer's port was unreachable a moment ago (ICMP, reported by Read): nothing is re-sent for that
			}
			eps := []string{"drain+close", "close"}
			cliHistories(c, "C11", cliOpts{MsgSize: []int{2052}}, alpha, depth, eps, "H")
			cliHistories(c, "C11", cliOpts{MsgSize: []int{2052}, NoRetransmit: true}, alpha, depth-1, eps, "Hnr")
			cliHistories(c, "C11", cliOpts{MsgSize: []int{24}, RTO: 1}, alpha, depth-1, eps, "Hrto1ns")
			cliHistories(c, "C11", cliOpts{MsgSize: []int{1024}, RTO: 1000000}, alpha, depth-2, eps, "Hrto1ms")
			// the caller assigned Type and Length without encoding them: what goes out is Raw as it was at Start, every time
			cliHistories(c, "C11", cliOpts{MsgSize: []int{24}, StaleFields: true}, alpha, depth-2, eps, "Hstale")
			// time scales: early ticks (the collector fires between deadlines), and RTOs of 2 minutes, 100 and 250 years
			// (deadlines beyond what a 64-bit nanosecond count since 1970 can hold)
			slow := []cliEv{{K: "start", I: 0}, {K: "tick", Arg: 4}, {K: "tick", Arg: 5}, {K: "tick", Arg: 0}, {K: "tick", Arg: 1}, {K: "resp", I: 0}, {K: "failwrite"}, {K: "failwrite", Arg: 1}, {K: "garbage", Arg: 2}, {K: "garbage", Arg: 4}, {K: "readerr", Arg: 5}}
			cliHistories(c, "C11", cliOpts{MsgSize: []int{2052}}, slow, depth, eps, "Hearly")
			// a clock that is stepped back: what the collector saw before the step says nothing about transactions
			// started after it
			clk := []cliEv{{K: "start", I: 0}, {K: "clockback"}, {K: "tick", Arg: 2}, {K: "tick", Arg: 4}, {K: "tick", Arg: 0}, {K: "tick", Arg: 1}, {K: "resp", I: 0}}
			cliHistories(c, "C11", cliOpts{MsgSize: []int{24}}, clk, depth, eps, "Hclockback")
			// a clock that does not start on a round number (deadlines then fall between the ticks of any coarser grid)
			cliHistories(c, "C11", cliOpts{ClockOffset: 2300001}, slow, depth-1, eps, "Hoffset")
			cliHistories(c, "C11", cliOpts{ClockOffset: 4999999, RTO: int64(100 * time.Millisecond)}, slow, depth-1, eps, "Hoffset2")
			for _, rto := range []time.Duration{2 * time.Minute, 100 * 365 * 24 * time.Hour, 250 * 365 * 24 * time.Hour} {
				cliHistories(c, "C11", cliOpts{RTO: int64(rto)}, slow, depth-2, eps, "Hslow")
				cliHistories(c, "C11", cliOpts{RTO: int64(rto), NoRetransmit: true}, slow, depth-2, eps, "Hslow-nr")
			}
			// size sweep on fixed histories: all 8 transmissions and the final timeout / a response after two retransmissions
			tickAfter := cliEv{K: "tick", Arg: 1}
			tickAt := cliEv{K: "tick", Arg: 0}
			var item int64
			for _, size := range []int{20, 24, 1024, 1500, 1504, 2044, 2048, 2052, 4096, 16384, 65532} {
				for _, nr := range []bool{false, true} {
					full := []cliEv{{K: "start", I: 0}, {K: "overwrite", I: 0}}
					for i := 0; i < 9; i++ {
						full = append(full, tickAt, tickAfter)
					}
					short := []cliEv{{K: "start", I: 0}, {K: "overwrite", I: 0}, tickAfter, {K: "setrto", Arg: 1}, tickAfter, tickAt, {K: "resp", I: 0}, tickAfter}
					// every re-transmission runs into a write timeout, 14 deadlines in a row: the first failure ends the transaction
					timeouts := []cliEv{{K: "start", I: 0}}
					// from the third re-transmission on every write times out
					timeouts3 := []cliEv{{K: "start", I: 0}, tickAfter, tickAfter}
					for i := 0; i < 14; i++ {
						timeouts = append(timeouts, cliEv{K: "failwrite", Arg: 1}, tickAfter)
						timeouts3 = append(timeouts3, cliEv{K: "failwrite", Arg: 1}, tickAfter)
					}
					for _, h := range [][]cliEv{full, short, timeouts, timeouts3} {
						item++
						if !c.Mine(item) {
							continue
						}
						sc := cliScenario{Opts: cliOpts{MsgSize: []int{size}, NoRetransmit: nr}, Threads: [][]cliEv{h}, Sequential: true, Epilogue: "drain+close"}
						cliExplore(c, "C11", sc, 0, false, "size")
					}
				}
			}
			// retransmission concurrent with the caller reusing its message and with a response
			for i, sc := range []cliScenario{
				{Opts: cliOpts{MsgSize: []int{3000}}, Setup: []cliEv{{K: "start", I: 0}}, Threads: [][]cliEv{nil, {tickAfter, tickAfter}, {{K: "overwrite", I: 0}}, {{K: "resp", I: 0}}}, Epilogue: "drain+close"},
				{Opts: cliOpts{MsgSize: []int{3000}}, Setup: []cliEv{{K: "start", I: 0}}, Threads: [][]cliEv{nil, {tickAfter, tickAfter, tickAfter}, {{K: "setrto", Arg: 1}, {K: "start", I: 1}}}, Epilogue: "drain+close"},
				// two clients re-transmitting at the same time (they share the package-level scratch pool)
				{TwoClients: true, Opts: cliOpts{MsgSize: []int{3000}}, Setup: []cliEv{{K: "start", I: 0}, {K: "start2", I: 1}}, Threads: [][]cliEv{nil, {tickAfter, tickAfter}, {{K: "tick2"}, {K: "tick2"}}}, Epilogue: "drain+close"},
				// Start(A) || a tick that times A out for good (no re-transmission) || Start(B) taking A's recycled object
				{Opts: cliOpts{MsgSize: []int{100, 60}, NoRetransmit: true, PoolFanout: true}, Threads: [][]cliEv{nil, {{K: "start", I: 0}}, {{K: "tick", Arg: 2}}, {{K: "start", I: 1}}}, Epilogue: "drain+close"},
				// re-transmission of a request larger than the scratch buffer || its response || Start(B) taking the recycled object
				{Opts: cliOpts{MsgSize: []int{3000, 2600}}, Setup: []cliEv{{K: "start", I: 0}}, Threads: [][]cliEv{nil, {tickAfter}, {{K: "resp", I: 0}}, {{K: "start", I: 1}}}, Epilogue: "drain+close"},
			} {
				cliExplore(c, "C11", sc, 2, true, fmt.Sprintf("S%d", i+1))
			}
			c.Extra("history_depth", float64(depth))
			c.Extra("message_sizes", "20 24 1024 1500 1504 2044 2048 2052 4096 16384 65532")
			c.Extra("attempt_limits", "0 (WithNoRetransmit) and 7 (default); 1,2,3,8 are not reachable through the public API and are not explored")
		},
		Replay: cliReplay("C11"),
	}

	// ---- C12: responses reach the transaction with the same ID and nothing else ----
	registry["C12"] = propImpl{
		Run: func(c *Ctx) {
			depth := 4
			if c.Thorough() {
				depth = 5
			}
			alpha := []cliEv{
				{K: "start", I: 0}, {K: "start", I: 1}, {K: "start", I: 2},
				{K: "resp", I: 0}, {K: "resp", I: 1}, {K: "resp", I: 2},
				{K: "resp", I: 0, Arg: 1}, {K: "resp", I: 1, Arg: 2}, {K: "unknown"}, {K: "unknown", Arg: 1},
				{K: "garbage", Arg: 0}, {K: "garbage", Arg: 1}, {K: "garbage", Arg: 2}, {K: "garbage", Arg: 3}, {K: "garbage", Arg: 4}, {K: "garbage", Arg: 5}, {K: "garbage", Arg: 6},
				{K: "resp", I: 2, Arg: 3}, {K: "tick", Arg: 1}, {K: "failagent"}, {K: "readerr", Arg: 3}, {K: "readerr", Arg: 0}, {K: "failprocess"},
			}
			eps := []string{"drain+close"}
			cliHistories(c, "C12", cliOpts{Fallback: true, PoolFanout: true}, alpha, depth-1, eps, "Hfb")
			// one level deeper over the events that matter most for routing
			core := []cliEv{{K: "start", I: 0}, {K: "start", I: 1}, {K: "resp", I: 0}, {K: "resp", I: 0, Arg: 1}, {K: "resp", I: 1, Arg: 2}, {K: "resp", I: 0, Arg: 3},
				{K: "unknown"}, {K: "garbage", Arg: 4}, {K: "readerr", Arg: 3}, {K: "tick", Arg: 1}}
			cliHistories(c, "C12", cliOpts{Fallback: true, PoolFanout: true}, core, depth, eps, "Hcore")
			cliHistories(c, "C12", cliOpts{PoolFanout: true}, alpha, depth-2, eps, "H")
			cliHistories(c, "C12", cliOpts{PoolFanout: true}, core, depth-1, eps, "Hcore-nofb")
			// datagrams whose id is not in flight but collides with A under a digest (CRC-32, xor-fold, byte multiset)
			twins := []cliEv{{K: "start", I: 0}, {K: "resp", I: 0}, {K: "resp", I: 0, Arg: 5}, {K: "unknown", I: 5}, {K: "unknown", I: 6}, {K: "unknown", I: 7}, {K: "tick", Arg: 1}}
			// datagrams with bytes behind the message, then responses that fill the read buffer: what one datagram
			// leaves behind must not cost the next one anything
			erosion := []cliEv{{K: "start", I: 0}, {K: "start", I: 1}, {K: "resp", I: 0, Arg: 4}, {K: "resp", I: 1, Arg: 4}, {K: "resp", I: 0, Arg: 1}, {K: "resp", I: 1, Arg: 1}}
			cliHistories(c, "C12", cliOpts{Fallback: true}, erosion, depth+1, eps, "Herosion")
			cliHistories(c, "C12", cliOpts{Fallback: true}, twins, depth, eps, "Htwin")
			cliHistories(c, "C12", cliOpts{}, twins, depth-1, eps, "Htwin-nofb")
			// long time scales: with an RTO of 2 minutes (and of 100 years, without re-transmission) a response that
			// arrives after one or two deadlines, minutes or centuries after Start, still belongs to its transaction
			slow := []cliEv{{K: "start", I: 0}, {K: "start", I: 1}, {K: "resp", I: 0}, {K: "resp", I: 1}, {K: "unknown"}, {K: "tick", Arg: 0}, {K: "tick", Arg: 1}}
			cliHistories(c, "C12", cliOpts{Fallback: true, RTO: int64(2 * time.Minute)}, slow, depth, eps, "Hslow")
			cliHistories(c, "C12", cliOpts{Fallback: true, RTO: int64(100 * 365 * 24 * time.Hour), NoRetransmit: true}, slow, depth-1, eps, "Hcenturies")
			// the connection outlives the client (WithNoConnClose): after Close a successor client on the same connection
			// gets every datagram from then on (checked after every history that closed)
			cliHistories(c, "C12", cliOpts{Fallback: true, NoConnClose: true}, []cliEv{{K: "start", I: 0}, {K: "resp", I: 0}, {K: "unknown"}, {K: "tick", Arg: 1}, {K: "close"}}, depth-1, []string{"close"}, "Hsuccessor")
			// responses that carry a FINGERPRINT (right, wrong), alone and with bytes behind the message
			fps := []cliEv{{K: "start", I: 0}, {K: "resp", I: 0, Arg: 6}, {K: "resp", I: 0, Arg: 7}, {K: "resp", I: 0, Arg: 8}, {K: "unknown", Arg: 7}, {K: "tick", Arg: 1}}
			cliHistories(c, "C12", cliOpts{Fallback: true}, fps, depth, eps, "Hfingerprint")
			cliHistories(c, "C12", cliOpts{}, fps, depth-1, eps, "Hfingerprint-nofb")
			small := []cliEv{{K: "start", I: 0}, {K: "start", I: 1}, {K: "resp", I: 0}, {K: "resp", I: 1, Arg: 2}, {K: "unknown"}, {K: "tick", Arg: 1}, {K: "failagent"}, {K: "failwrite"}, {K: "failwrite", Arg: 1}}
			cliHistoriesFrom(c, "C12", cliOpts{Fallback: true, PoolFanout: true}, []cliEv{{K: "start", I: 0}, {K: "resp", I: 0}}, small, depth, eps, "Hafter")
			ev := func(k string, i int) cliEv { return cliEv{K: k, I: i} }
			tickAfter := cliEv{K: "tick", Arg: 1}
			pb := 2
			if c.Thorough() {
				pb = 3
			}
			for i, sc := range []cliScenario{
				{Setup: []cliEv{ev("start", 0), {K: "failwrite"}}, Threads: [][]cliEv{nil, {tickAfter}, {ev("resp", 0)}}, Probe: true, Epilogue: "drain+close", Opts: cliOpts{PoolFanout: true, Fallback: true}},
				{Threads: [][]cliEv{nil, {ev("do", 0)}, {ev("do", 1)}, {ev("resp", 1), ev("resp", 0)}}, Epilogue: "drain+close", Opts: cliOpts{PoolFanout: true, Fallback: true}},
				{Threads: [][]cliEv{nil, {ev("start", 0), ev("start", 1)}, {ev("start", 2)}, {ev("resp", 2), ev("resp", 0), ev("resp", 1), ev("resp", 0)}}, Epilogue: "drain+close", Opts: cliOpts{Fallback: true}},
				{Setup: []cliEv{ev("start", 0), {K: "failwrite"}}, Threads: [][]cliEv{nil, {tickAfter}, {ev("resp", 0)}, {ev("start", 1), ev("resp", 1)}}, Probe: true, Epilogue: "drain+close", Opts: cliOpts{PoolFanout: true, Fallback: true}},
				// the answer arrives as fast as causality allows: right after the request was written, while Start is still running
				{Threads: [][]cliEv{nil, {ev("start", 0)}, {ev("resp", 0)}}, Epilogue: "drain+close", Opts: cliOpts{Fallback: true, NoRetransmit: true}},
				{Threads: [][]cliEv{nil, {ev("do", 0)}, {ev("resp", 0)}, {ev("start", 1)}}, Epilogue: "drain+close", Opts: cliOpts{Fallback: true}},
				// responses that arrive while Close is under way (between its first step and the agent's closing): each
				// transaction gets its response or ErrClientClosed, and a response that gets through is handed over as such
				{Setup: []cliEv{ev("start", 0), ev("start", 1)}, Threads: [][]cliEv{nil, {{K: "close"}}, {ev("resp", 1), ev("resp", 0)}}, Epilogue: "drain+close", Opts: cliOpts{Fallback: true}},
				{Setup: []cliEv{ev("start", 0)}, Threads: [][]cliEv{nil, {{K: "close"}}, {ev("resp", 0)}, {ev("start", 1), ev("resp", 1)}}, Epilogue: "drain+close", Opts: cliOpts{Fallback: true, PoolFanout: true}},
			} {
				cliExplore(c, "C12", sc, pb, true, fmt.Sprintf("S%d", i+1))
			}
			// one long sequential history: 2000 transactions over the three colliding ids through recycled objects
			if c.Shard == 0 {
				var h []cliEv
				for i := 0; i < 2000; i++ {
					s := i % 3
					h = append(h, ev("start", s))
					if i%7 == 3 {
						h = append(h, cliEv{K: "unknown"})
					}
					if i%11 == 5 {
						h = append(h, cliEv{K: "garbage", Arg: i % 4})
					}
					h = append(h, ev("resp", s))
					if i%5 == 1 {
						h = append(h, ev("resp", s)) // duplicate / late response
					}
				}
				sc := cliScenario{Opts: cliOpts{Fallback: true}, Threads: [][]cliEv{h}, Sequential: true, Epilogue: "drain+close"}
				cliExplore(c, "C12", sc, 0, false, "long")
			}
			c.Extra("history_depth", float64(depth))
		},
		Replay: cliReplay("C12"),
	}

	// ---- C15: Client.Close is final, leak-free and honours connection ownership ----
	registry["C15"] = propImpl{
		Run: func(c *Ctx) {
			depth, pb := 4, 2
			if c.Thorough() {
				depth, pb = 5, 3
			}
			alpha := []cliEv{
				{K: "start", I: 0}, {K: "do", I: 1}, {K: "resp", I: 0}, {K: "resp", I: 1},
				{K: "tick", Arg: 1}, {K: "failwrite"}, {K: "failwrite", Arg: 1}, {K: "readerr", Arg: 1}, {K: "readerr", Arg: 2}, {K: "readerr", Arg: 3}, {K: "close"},
				{K: "garbage", Arg: 4}, // the first part of a message (a header that announces more than has arrived)
				{K: "unknown"},         // a datagram for the fallback handler
			}
			optSets := []cliOpts{
				{}, {NoConnClose: true}, {Fallback: true}, {NoRetransmit: true}, {ConnCloseErr: true}, {AgentCloseErr: true},
				{ConnCloseErr: true, AgentCloseErr: true}, {NoConnClose: true, ConnCloseErr: true, AgentCloseErr: true}, {RTO: 1000000, Fallback: true, NoConnClose: true},
				{Reentrant: true}, {Reentrant: true, NoRetransmit: true},
				{ConnCloseErr: true, AgentCloseErr: true, SentinelErrs: true}, {AgentCloseErr: true, SentinelErrs: true, NoConnClose: true},
				{ConnCloseErr: true, CloseTimeout: true}, {ConnCloseErr: true, CloseTimeout: true, AgentCloseErr: true, NoRetransmit: true},
				{Fallback: true, Reentrant: true},
			}
			for i, o := range optSets {
				d := depth
				if i > 1 {
					d = depth - 1
				}
				cliHistories(c, "C15", o, alpha, d, []string{"close"}, fmt.Sprintf("H%d", i))
			}
			ev := func(k string, i int) cliEv { return cliEv{K: k, I: i} }
			tickAfter := cliEv{K: "tick", Arg: 1}
			cl := cliEv{K: "close"}
			n := 0
			for _, o := range []cliOpts{{}, {NoConnClose: true}, {ConnCloseErr: true, AgentCloseErr: true}, {Fallback: true, NoConnClose: true}, {Reentrant: true}, {Fallback: true, Reentrant: true}} {
				for _, sc := range []cliScenario{
					{Threads: [][]cliEv{nil, {cl}, {cl}}},
					{Threads: [][]cliEv{nil, {cl}, {cl}, {cl}}},
					{Threads: [][]cliEv{nil, {cl}, {ev("start", 0)}}},
					{Threads: [][]cliEv{nil, {cl}, {ev("do", 0)}}},
					{Threads: [][]cliEv{nil, {cl}, {ev("do", 0)}, {ev("resp", 0)}}},
					{Threads: [][]cliEv{nil, {cl}, {ev("indicate", 0)}, {{K: "setrto", Arg: 5}}}},
					{Setup: []cliEv{ev("start", 0)}, Threads: [][]cliEv{nil, {cl}, {ev("resp", 0)}}},
					{Threads: [][]cliEv{nil, {cl}, {{K: "unknown"}}}},
					{Threads: [][]cliEv{nil, {cl}, {{K: "unknown"}}, {ev("indicate", 0)}}},
					{Setup: []cliEv{ev("start", 0)}, Threads: [][]cliEv{nil, {cl}, {tickAfter}}},
					{Setup: []cliEv{ev("start", 0), ev("start", 1)}, Threads: [][]cliEv{nil, {cl}, {tickAfter}, {ev("resp", 1)}}},
					{Setup: []cliEv{ev("start", 0)}, Threads: [][]cliEv{nil, {cl}, {ev("do", 1)}}},
					{Setup: []cliEv{{K: "readerr", Arg: 1}}, Threads: [][]cliEv{nil, {cl}, {ev("start", 0)}}},
					// the client is closed already: later calls race with a redundant second Close
					{Setup: []cliEv{cl}, Threads: [][]cliEv{nil, {cl}, {ev("indicate", 0)}}},
					{Setup: []cliEv{cl}, Threads: [][]cliEv{nil, {cl}, {ev("start", 0)}, {ev("indicate", 1)}}},
				} {
					sc.Opts = o
					sc.Epilogue = "close"
					n++
					cliExplore(c, "C15", sc, pb, true, fmt.Sprintf("S%d", n))
				}
			}
			// a transport under back pressure: every Write blocks until the connection is closed
			for _, sc := range []cliScenario{
				{Threads: [][]cliEv{nil, {cl}, {ev("indicate", 0)}}},
				{Threads: [][]cliEv{nil, {cl}, {ev("start", 0)}}},
				{Threads: [][]cliEv{nil, {cl}, {ev("do", 0)}}},
				{Threads: [][]cliEv{nil, {cl}, {ev("indicate", 0)}, {ev("start", 1)}}},
			} {
				sc.Opts = cliOpts{StallWrite: true}
				sc.Epilogue = "close"
				n++
				cliExplore(c, "C15", sc, pb, true, fmt.Sprintf("S%d", n))
			}
			c.Extra("history_depth", float64(depth))
			c.Extra("preemption_bound", float64(pb))
			c.Extra("option_sets", float64(len(optSets)))
		},
		Replay: cliReplay("C15"),
	}
}
