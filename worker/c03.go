package main

import (
	"bytes"
	"encoding/hex"
	"encoding/json"
	"fmt"
	"net"
	"strings"

	stun "github.com/pion/stun/v3"

	"verif/ref"
)

// C03: built messages are well-formed and the struct always matches its wire bytes.

type buildOp struct {
	Name string
	Do   func(m *stun.Message)
	// Appends: the operation lays out attribute bytes (Add, a typed setter, Encode, Build) and thereby
	// re-establishes len(Raw) == 20+Length even when the message was decoded from a buffer with trailing bytes.
	Appends bool
	// IsEncode marks operations after which Raw must be the canonical reference encoding of the struct.
	IsEncode bool
}

func patBytes(n, salt int) []byte {
	b := make([]byte, n)
	for i := range b {
		b[i] = byte(0x61 + (i*11+salt)%26)
	}
	return b
}

var c03Alphabet = func() []buildOp {
	var ops []buildOp
	add := func(t uint16, n int) {
		v := patBytes(n, int(t))
		ops = append(ops, buildOp{Name: fmt.Sprintf("Add(%#04x,%dB)", t, n), Do: func(m *stun.Message) { m.Add(stun.AttrType(t), v) }, Appends: true})
	}
	add(0x0001, 0)
	add(0x8022, 1)
	add(0x7FFF, 2)
	add(0xFFFF, 3)
	add(0x0001, 4)
	add(0x8022, 5)
	add(0x7FFF, 7)
	add(0xFFFF, 8)
	add(0x8028, 3) // FINGERPRINT-typed attributes that are not fingerprints (a foreign or damaged message carried on)
	add(0x8028, 8)
	for _, mc := range []struct {
		m uint16
		c uint8
	}{{0, 0}, {1, 2}, {0x00F, 1}, {0x010, 3}, {0x080, 0}, {0xFFF, 3}} {
		t := stun.NewType(stun.Method(mc.m), stun.MessageClass(mc.c))
		ops = append(ops, buildOp{Name: fmt.Sprintf("SetType(%#x,%d)", mc.m, mc.c), Do: func(m *stun.Message) { m.SetType(t) }})
	}
	tidA := [12]byte{0xa1, 0xa2, 0xa3, 0xa4, 0xa5, 0xa6, 0xa7, 0xa8, 0xa9, 0xaa, 0xab, 0xac}
	other := &stun.Message{TransactionID: [12]byte{0xff, 0, 0xff, 0, 0xff, 0, 0xff, 0, 0xff, 0, 0xff, 0}}
	ops = append(ops,
		buildOp{Name: "TransactionIDSetter", Do: func(m *stun.Message) { _ = stun.NewTransactionIDSetter(tidA).AddTo(m) }},
		buildOp{Name: "Message.AddTo(copy id)", Do: func(m *stun.Message) { _ = other.AddTo(m) }},
		buildOp{Name: "WriteHeader", Do: func(m *stun.Message) { m.WriteHeader() }},
		buildOp{Name: "Encode", Do: func(m *stun.Message) { m.Encode() }, IsEncode: true, Appends: true},
		buildOp{Name: "WriteLength", Do: func(m *stun.Message) { m.WriteLength() }},
		buildOp{Name: "ForEach(0x7FFF, callback fails on 2nd visit)", Do: func(m *stun.Message) {
			n := 0
			_ = m.ForEach(0x7FFF, func(*stun.Message) error {
				n++
				if n == 2 {
					return errC02Stop
				}
				return nil
			})
		}},
		buildOp{Name: "ForEach(0x8022, callback fails on 1st visit)", Do: func(m *stun.Message) {
			_ = m.ForEach(0x8022, func(*stun.Message) error { return errC02Stop })
		}},
	)
	for _, n := range []int{0, 1, 3, 4} {
		v := patBytes(n, 5)
		ops = append(ops, buildOp{Name: fmt.Sprintf("Username(%dB)", n), Do: func(m *stun.Message) { _ = stun.Username(v).AddTo(m) }})
	}
	ops = append(ops,
		buildOp{Name: "XORMappedAddress(v4)", Do: func(m *stun.Message) {
			_ = (&stun.XORMappedAddress{IP: net.IPv4(10, 1, 2, 3).To4(), Port: 4000}).AddTo(m)
		}},
		buildOp{Name: "XORMappedAddress(v6)", Do: func(m *stun.Message) {
			_ = (&stun.XORMappedAddress{IP: net.ParseIP("2001:db8::1"), Port: 4001}).AddTo(m)
		}},
		buildOp{Name: "MappedAddress(v4)", Do: func(m *stun.Message) { _ = (&stun.MappedAddress{IP: net.IPv4(10, 1, 2, 4).To4(), Port: 4002}).AddTo(m) }},
		buildOp{Name: "ErrorCode(400)", Do: func(m *stun.Message) { _ = stun.CodeBadRequest.AddTo(m) }},
		buildOp{Name: "UnknownAttributes(0)", Do: func(m *stun.Message) { _ = stun.UnknownAttributes{}.AddTo(m) }},
		buildOp{Name: "UnknownAttributes(1)", Do: func(m *stun.Message) { _ = stun.UnknownAttributes{stun.AttrRealm}.AddTo(m) }},
		buildOp{Name: "UnknownAttributes(2)", Do: func(m *stun.Message) { _ = stun.UnknownAttributes{stun.AttrRealm, stun.AttrNonce}.AddTo(m) }},
		buildOp{Name: "MessageIntegrity", Do: func(m *stun.Message) { _ = stun.NewShortTermIntegrity("pw").AddTo(m) }},
		buildOp{Name: "Fingerprint", Do: func(m *stun.Message) { _ = stun.Fingerprint.AddTo(m) }},
		buildOp{Name: "Build()", Do: func(m *stun.Message) { _ = m.Build() }, IsEncode: true},
		buildOp{Name: "Build(Username)", Do: func(m *stun.Message) { _ = m.Build(stun.NewUsername("bob")) }, IsEncode: true},
		buildOp{Name: "Build(type,id,Software,Fingerprint)", Do: func(m *stun.Message) {
			_ = m.Build(stun.BindingSuccess, stun.NewTransactionIDSetter(tidA), stun.NewSoftware("sw/1"), stun.Fingerprint)
		}, IsEncode: true},
		// a Build that fails at its third setter: what it leaves behind is still a message
		buildOp{Name: "Build(Username, Software, Realm of 800 bytes: refused)", Do: func(m *stun.Message) {
			_ = m.Build(stun.NewUsername("bob"), stun.NewSoftware("sw/2"), stun.Realm(patBytes(800, 9)))
		}, IsEncode: true},
		// what Encode is for: the caller edits the attribute list, then re-encodes (only with two or more attributes,
		// see the note on Encode and an emptied list in DESIGN 9.4)
		buildOp{Name: "drop the first attribute; Encode", Do: func(m *stun.Message) {
			if len(m.Attributes) >= 1 {
				m.Attributes = m.Attributes[1:]
				m.Encode()
			}
		}},
	)
	// the message is replaced by a clone of itself that was made from inside a ForEach callback on the type of its
	// last attribute (the source's attribute list is narrowed there): a clone is a decode of the source's bytes
	ops = append(ops, buildOp{Name: "m = clone of m made inside a ForEach callback (type of the last attribute)", Do: func(m *stun.Message) {
		if len(m.Attributes) == 0 {
			return
		}
		c := new(stun.Message)
		done := false
		_ = m.ForEach(m.Attributes[len(m.Attributes)-1].Type, func(mm *stun.Message) error {
			if !done {
				done = mm.CloneTo(c) == nil
			}
			return nil
		})
		if done {
			*m = *c
		}
	}})
	for i := range ops {
		switch n := ops[i].Name; {
		case len(n) >= 8 && n[:8] == "Username", n == "XORMappedAddress(v4)", n == "XORMappedAddress(v6)", n == "MappedAddress(v4)", n == "ErrorCode(400)",
			len(n) >= 17 && n[:17] == "UnknownAttributes", n == "Fingerprint", len(n) >= 5 && n[:5] == "Build":
			ops[i].Appends = true
		}
		// MessageIntegrity appends unless FINGERPRINT is present (then it must change nothing): not counted
	}
	return ops
}()

// c03TrailingFrom is the index of the first start state with trailing bytes.
var c03TrailingFrom int

// c03Starts are the start states.
var c03Starts = func() []struct {
	Name string
	Make func() *stun.Message
} {
	type st = struct {
		Name string
		Make func() *stun.Message
	}
	starts := []st{
		{"new+Build()", func() *stun.Message { m := new(stun.Message); _ = m.Build(); return m }},
		{"new+WriteHeader", func() *stun.Message { m := new(stun.Message); m.WriteHeader(); return m }},
		{"new+Encode", func() *stun.Message { m := new(stun.Message); m.Encode(); return m }},
		{"New()+WriteHeader", func() *stun.Message { m := stun.New(); m.WriteHeader(); return m }},
	}
	// retained buffers whose capacity is not a multiple of 4 (caller-supplied or pooled storage), pre-filled with junk
	for _, k := range []int{21, 26, 27, 29, 30, 31, 33, 35, 38, 41} {
		k := k
		starts = append(starts, st{fmt.Sprintf("Raw with cap %d + WriteHeader", k), func() *stun.Message {
			back := make([]byte, k)
			for i := range back {
				back[i] = 0xAA
			}
			m := &stun.Message{Raw: back[:0]}
			m.WriteHeader()
			return m
		}})
	}
	tid := [12]byte{1, 1, 2, 3, 5, 8, 13, 21, 34, 55, 89, 144}
	fam := [][]ref.EncodeAttr{
		{},
		{{Type: 0x0006, Value: []byte("a")}},
		{{Type: 0x0006, Value: []byte("abcd")}, {Type: 0x8022, Value: []byte("xy")}},
		{{Type: 0x8020, Value: []byte{0, 1, 0x11, 0x22, 1, 2, 3, 4}}},
		{{Type: 0x0020, Value: []byte{0, 1, 0x11, 0x22, 1, 2, 3, 4}}, {Type: 0x8020, Value: []byte{}}},
		{{Type: 0x7FFF, Value: []byte{}}, {Type: 0x7FFF, Value: []byte{9}}, {Type: 0x7FFF, Value: []byte{9, 9, 9}}},
		{{Type: 0x0008, Value: make([]byte, 20)}, {Type: 0x8028, Value: []byte{1, 2, 3, 4}}},
		{{Type: 0x8028, Value: []byte{1, 2, 3, 4}}},
	}
	words := []uint16{0x0001, 0x0101, 0xC001, 0x3FFF, 0x0001, 0x0111, 0x0001, 0x8101}
	for i, attrs := range fam {
		raw := ref.Encode(words[i], tid, attrs)
		name := fmt.Sprintf("Decode(%x)", raw)
		starts = append(starts, st{name, func() *stun.Message {
			m := &stun.Message{Raw: exactSlice(raw, 0)}
			if err := m.Decode(); err != nil {
				panic("c03 start does not decode: " + err.Error())
			}
			return m
		}})
	}
	// decoded through the entry points that copy, into a Message that has no storage yet, from a read buffer the
	// caller fills with the next datagram as soon as the call returns: the message is built on afterwards
	for _, fi := range []int{2, 4} {
		raw := ref.Encode(words[fi], tid, fam[fi])
		for ei, ename := range []string{"Decode(data,m)", "Write", "UnmarshalBinary", "CloneTo"} {
			ei := ei
			starts = append(starts, st{fmt.Sprintf("%s(%x) into new(Message), then the caller reuses its buffer", ename, raw), func() *stun.Message {
				data := exactSlice(raw, 0)
				m := new(stun.Message)
				var err error
				switch ei {
				case 0:
					err = stun.Decode(data, m)
				case 1:
					_, err = m.Write(data)
				case 2:
					err = m.UnmarshalBinary(data)
				case 3:
					src := &stun.Message{Raw: data}
					if err = src.Decode(); err == nil {
						err = src.CloneTo(m)
					}
				}
				if err != nil {
					panic("c03 start does not decode: " + err.Error())
				}
				for i := range data {
					data[i] = 0x5A
				}
				return m
			}})
		}
	}
	// bytes of a sloppy peer that the decoder refuses today (last attribute without its padding, the header counting
	// only what is there; a 5-byte FINGERPRINT-typed attribute is harmless but kept for the family): these are start
	// states only for a library that accepts them - Make returns nil otherwise and the state is skipped
	for _, sl := range [][]byte{
		func() []byte {
			r := ref.Encode(0x0001, tid, []ref.EncodeAttr{{Type: 0x0006, Value: []byte("abcd")}, {Type: 0x8022, Value: []byte("xyz12")}})
			r = r[:len(r)-3]
			r[2], r[3] = byte((len(r)-20)>>8), byte(len(r)-20)
			return r
		}(),
		func() []byte {
			r := ref.Encode(0x0101, tid, []ref.EncodeAttr{{Type: 0x0006, Value: []byte("a")}})
			r = r[:len(r)-3]
			r[2], r[3] = 0, byte(len(r)-20)
			return r
		}(),
	} {
		sl := sl
		starts = append(starts, st{fmt.Sprintf("Decode(unpadded %x), if the library accepts it", sl), func() *stun.Message {
			m := &stun.Message{Raw: exactSlice(sl, 0)}
			if err := m.Decode(); err != nil {
				return nil
			}
			return m
		}})
	}
	// decoded from a buffer that carries bytes after the declared length (a coalesced stream read): tolerated by
	// Decode; the first appending operation must cut Raw back to the message
	for _, tr := range []struct{ i, n int }{{2, 4}, {1, 7}, {6, 132}} {
		tr := tr
		raw := ref.Encode(words[tr.i], tid, fam[tr.i])
		for k := 0; k < tr.n; k++ {
			raw = append(raw, byte(0xB0+k))
		}
		starts = append(starts, st{fmt.Sprintf("Decode(message %d + %d trailing bytes)", tr.i, tr.n), func() *stun.Message {
			m := &stun.Message{Raw: exactSlice(raw, 0)}
			if err := m.Decode(); err != nil {
				panic("c03 start does not decode: " + err.Error())
			}
			return m
		}})
	}
	c03TrailingFrom = len(starts) - 3
	return starts
}()

// c03Coherent checks the statement on the current state of m.
func c03Coherent(m *stun.Message) (key, detail string) { return c03CoherentT(m, false) }

// c03CoherentT: with tolerateTrailing (a message decoded from a buffer with trailing bytes on which no appending
// operation ran yet) bytes after the declared length are not a defect.
func c03CoherentT(m *stun.Message, tolerateTrailing bool) (key, detail string) {
	raw := m.Raw
	why := ref.WellFormedZeroPad(raw)
	if why == "trailing-bytes" && tolerateTrailing && len(raw) >= 20 {
		hl := int(raw[2])<<8 | int(raw[3])
		if 20+hl <= len(raw) {
			raw = raw[:20+hl]
			why = ref.WellFormedZeroPad(raw)
			if why == "nonzero-padding" {
				why = ""
			}
		}
	}
	if why != "" {
		return "malformed/" + why, fmt.Sprintf("Raw is not a well-formed message (%s): %x", why, clip(raw))
	}
	hl := int(raw[2])<<8 | int(raw[3])
	if hl != int(m.Length) || hl != len(raw)-20 || hl%4 != 0 {
		return "length-incoherent", fmt.Sprintf("header length %d, m.Length %d, len(Raw)-20 = %d", hl, m.Length, len(raw)-20)
	}
	d := new(stun.Message)
	d.Raw = append([]byte(nil), raw...)
	if err := d.Decode(); err != nil {
		return "does-not-decode", fmt.Sprintf("Decode(Raw) = %v: %x", err, clip(raw))
	}
	if d.Type != m.Type {
		return "struct-wire-type", fmt.Sprintf("struct Type %v, wire decodes to %v", m.Type, d.Type)
	}
	if d.TransactionID != m.TransactionID {
		return "struct-wire-tid", fmt.Sprintf("struct TransactionID %x, wire %x", m.TransactionID, d.TransactionID)
	}
	if len(d.Attributes) != len(m.Attributes) {
		return "struct-wire-attrs", fmt.Sprintf("struct holds %d attributes, wire %d: %x", len(m.Attributes), len(d.Attributes), clip(raw))
	}
	for i := range d.Attributes {
		a, b := m.Attributes[i], d.Attributes[i]
		if a.Type != b.Type || a.Length != b.Length || !bytes.Equal(a.Value, b.Value) || int(a.Length) != len(a.Value) {
			return "struct-wire-attrs", fmt.Sprintf("attribute %d: struct (%v,%d,%x) wire (%v,%d,%x)", i, a.Type, a.Length, clip(a.Value), b.Type, b.Length, clip(b.Value))
		}
	}
	if !m.Equal(d) || !d.Equal(m) {
		return "equal-disagrees", fmt.Sprintf("Equal(decode(Raw)) is false although type, id and attributes match (Length %d vs %d)", m.Length, d.Length)
	}
	return "", ""
}

type c03Case struct {
	Start int   `json:"start"`
	Ops   []int `json:"ops"`
	// single-step sweeps
	AddLen  int `json:"add_len,omitempty"`
	AddBase int `json:"add_base,omitempty"`
	// Many: a message of Many[0] attributes in type pattern Many[1], built by Add (Many[2]==0) or by Build (1)
	Many []int `json:"many,omitempty"`
	// Live: message A gets attributes of Live[0] and Live[1] bytes, then an unrelated message B one of Live[2]
	// bytes; A is checked again afterwards (two live messages must not share storage)
	Live []int `json:"live,omitempty"`
}

// c03Many: long attribute lists, with repeated types.
func c03Many(k c03Case) (key, detail string) {
	n, pat, viaBuild := k.Many[0], k.Many[1], k.Many[2] == 1
	p := catch(func() {
		m := new(stun.Message)
		var setters []stun.Setter
		setters = append(setters, stun.BindingRequest, stun.NewTransactionIDSetter([12]byte{3, 1, 4, 1, 5, 9, 2, 6, 5, 3, 5, 9}))
		m.TransactionID = [12]byte{3, 1, 4, 1, 5, 9, 2, 6, 5, 3, 5, 9}
		m.Type = stun.BindingRequest
		m.WriteHeader()
		for i := 0; i < n; i++ {
			t := stun.AttrType(0x0012) // XOR-PEER-ADDRESS, the attribute real messages repeat
			v := patBytes(1+i%9, i)
			switch pat {
			case 1:
				t = []stun.AttrType{0x0012, 0x000C}[i%2]
			case 2:
				t = stun.AttrType(0x4000 + i)
			case 3:
				v = patBytes(5, 0)
			case 4: // all equal but the last
				v = patBytes(5, 0)
				if i == n-1 {
					v = patBytes(5, 1)
				}
			case 5: // empty values: the most attributes a body of 65535 bytes can hold is 16383
				t, v = stun.AttrType(0x4000+i%7), nil
			}
			if viaBuild {
				setters = append(setters, stun.RawAttribute{Type: t, Value: v})
			} else {
				m.Add(t, v)
			}
		}
		if viaBuild {
			if err := m.Build(setters...); err != nil {
				key, detail = "build-fails", err.Error()
				return
			}
		}
		if key, detail = c03Coherent(m); key != "" {
			return
		}
		if !m.Equal(m) {
			key, detail = "equal-disagrees", "m.Equal(m) is false"
			return
		}
		c := new(stun.Message)
		if err := m.CloneTo(c); err != nil || !c.Equal(m) || !m.Equal(c) {
			key, detail = "equal-disagrees", fmt.Sprintf("clone: CloneTo = %v, Equal(clone) false", err)
		}
	})
	if p != "" {
		return "panic", p
	}
	if key != "" {
		detail = fmt.Sprintf("%d attributes, type pattern %d, via Build %v => %s", n, pat, viaBuild, detail)
	}
	return
}

// c03Live: two messages alive at once.
func c03Live(k c03Case) (key, detail string) {
	p := catch(func() {
		mode := 0 // 0: new(Message); 1: stun.New(), B created when A is complete; 2: stun.New(), both created first
		if len(k.Live) > 3 {
			mode = k.Live[3]
		}
		for rep := 0; rep < 3 && key == ""; rep++ {
			a, b := new(stun.Message), new(stun.Message)
			if mode > 0 {
				a = stun.New()
				if mode == 2 {
					b = stun.New()
				}
			}
			a.WriteHeader()
			a.Add(0x0013, patBytes(k.Live[0], 1))
			a.Add(0x0014, patBytes(k.Live[1], 2))
			if key, detail = c03Coherent(a); key != "" {
				return
			}
			if mode == 1 {
				b = stun.New()
			}
			b.WriteHeader()
			b.Add(0x0013, bytes.Repeat([]byte{0xEE}, k.Live[2]))
			b.Add(0x0006, []byte("x"))
			if key, detail = c03Coherent(b); key != "" {
				return
			}
			if k2, d2 := c03Coherent(a); k2 != "" {
				key, detail = "earlier-message-changed/"+k2, "after an unrelated message was built: "+d2
			}
		}
	})
	if p != "" {
		return "panic", p
	}
	if key != "" {
		detail = fmt.Sprintf("%v A: Add(%dB), Add(%dB); B: Add(%dB); A checked again => %s", k.Live[3:], k.Live[0], k.Live[1], k.Live[2], detail)
	}
	return
}

func (k c03Case) describe() string {
	s := c03Starts[k.Start].Name
	for _, o := range k.Ops {
		s += " ; " + c03Alphabet[o].Name
	}
	return s
}

// c03Run executes the sequence and checks coherence after the last step
// (all shorter sequences are enumerated too, so every step is checked).
func c03Run(k c03Case) (key, detail string) {
	p := catch(func() {
		m := c03Starts[k.Start].Make()
		if m == nil {
			return // a start state that exists only for a library that decodes such bytes
		}
		trailing := k.Start >= c03TrailingFrom
		if len(k.Ops) == 0 {
			key, detail = c03CoherentT(m, trailing)
			return
		}
		for i, o := range k.Ops {
			op := c03Alphabet[o]
			var wantCanon []byte
			last := i == len(k.Ops)-1
			if last && op.Name == "Encode" {
				attrs := make([]ref.EncodeAttr, len(m.Attributes))
				for j, a := range m.Attributes {
					attrs[j] = ref.EncodeAttr{Type: uint16(a.Type), Value: append([]byte(nil), a.Value...)}
				}
				wantCanon = ref.Encode(ref.TypeWord(uint16(m.Type.Method), uint8(m.Type.Class)), m.TransactionID, attrs)
			}
			op.Do(m)
			if op.Appends {
				trailing = false
			}
			if last {
				if key, detail = c03CoherentT(m, trailing); key != "" {
					return
				}
				if trailing {
					wantCanon = nil
				}
				if wantCanon != nil && !bytes.Equal(m.Raw, wantCanon) {
					key, detail = "encode-not-canonical", fmt.Sprintf("Encode produced %x, canonical encoding of the struct is %x", clip(m.Raw), clip(wantCanon))
					return
				}
			}
		}
	})
	if p != "" {
		return "panic", p
	}
	if key != "" {
		detail = k.describe() + " => " + detail
	}
	return
}

func c03AddSweep(k c03Case) (key, detail string) {
	p := catch(func() {
		m := new(stun.Message)
		m.WriteHeader()
		if k.AddBase > 0 {
			m.Add(0x0013, make([]byte, k.AddBase))
		}
		v := patBytes(k.AddLen, 3)
		m.Add(0x0013, v)
		if key, detail = c03Coherent(m); key != "" {
			return
		}
		got, _ := m.Get(0x0013)
		if k.AddBase == 0 && !bytes.Equal(got, v) {
			key, detail = "add-value", "value read back differs"
		}
	})
	if p != "" {
		return "panic", p
	}
	if key != "" {
		detail = fmt.Sprintf("WriteHeader; Add(%dB); Add(%dB) => %s", k.AddBase, k.AddLen, detail)
	}
	return
}

func init() {
	registry["C03"] = propImpl{
		Run: func(c *Ctx) {
			depth := 4
			if c.Thorough() {
				depth = 5
			}
			na := len(c03Alphabet)
			var item int64
			for si := range c03Starts {
				ops := make([]int, 0, depth)
				var rec func()
				rec = func() {
					if len(ops) == 2 || (len(ops) < 2 && depth < 2) {
						// sharding unit: (start, first two ops)
					}
					k := c03Case{Start: si, Ops: ops}
					c.Eval(1)
					c.DistinctByConstruction++
					c.Res.Traces++
					c.Res.Transitions++
					if key, d := c03Run(k); key != "" {
						c.Violation(key, d, c03Case{Start: si, Ops: append([]int(nil), ops...)})
					} else {
						c.Outcome(fmt.Sprintf("coherent/len%d", len(ops)))
					}
					if len(ops) == depth || (len(ops) == depth-1 && strings.Contains(c03Starts[si].Name, "then the caller reuses its buffer")) {
						return // (the reused-read-buffer starts: one level shallower)
					}
					for o := 0; o < na; o++ {
						if len(ops) == 1 {
							item++
							if !c.Mine(item) {
								continue
							}
						}
						if c.Expired() {
							c.Res.Exhaustive = false
							return
						}
						ops = append(ops, o)
						rec()
						ops = ops[:len(ops)-1]
					}
				}
				rec()
			}
			// single-step sweeps: Add with every value length 0..3000, and the 16-bit size boundary
			for l := 0; l <= 3000; l++ {
				if !c.Mine(int64(l)) {
					continue
				}
				c.Eval(1)
				c.DistinctByConstruction++
				if key, d := c03AddSweep(c03Case{AddLen: l}); key != "" {
					c.Violation("sweep/"+key, d, c03Case{AddLen: l, Start: -1})
				} else {
					c.Outcome("add-sweep")
				}
			}
			if c.Shard == 0 {
				// total attribute bytes 65532 and 65535-ish (largest representable): base + last
				for _, bl := range [][2]int{{65524, 0}, {60000, 5524}, {32764, 32760}, {0, 65528}, {0, 65525}, {65520, 4}, {65521, 0}} {
					c.Eval(1)
					if key, d := c03AddSweep(c03Case{AddBase: bl[0], AddLen: bl[1]}); key != "" {
						c.Violation("sweep/"+key, d, c03Case{AddBase: bl[0], AddLen: bl[1], Start: -1})
					} else {
						c.Outcome("size-boundary")
					}
				}
			}
			// long attribute lists with repeated types (Add and Build), and two live messages
			var mi int64
			// the ladder goes on to the largest count the 16-bit length field can describe (16383 empty attributes): a
			// limit on the COUNT that only one side of the codec knows about shows nowhere else
			for _, n := range []int{2, 8, 16, 17, 31, 32, 33, 40, 64, 65, 100, 128, 129, 300, 511, 512, 513, 1000, 1023, 1024, 1025, 2047, 2048, 2049, 4095, 4096, 4097, 8191, 8192, 8193, 16382, 16383} {
				for pat := 0; pat < 6; pat++ {
					if n > 4097 && pat != 5 {
						continue // (values of 1-9 bytes: 12 bytes per attribute on average, the body would pass 65535)
					}
					if n > 300 && pat == 2 {
						continue
					}
					for via := 0; via < 2; via++ {
						mi++
						if !c.Mine(mi) {
							continue
						}
						c.Eval(1)
						c.DistinctByConstruction++
						k := c03Case{Start: -2, Many: []int{n, pat, via}}
						if key, d := c03Many(k); key != "" {
							c.Violation("many/"+key, d, k)
						} else {
							c.Outcome("many-attributes")
						}
					}
				}
			}
			sizes := []int{8, 40, 600, 1100, 1500, 2100, 3000}
			for mode := 0; mode < 3; mode++ {
				for _, l0 := range sizes {
					for _, l1 := range sizes {
						for _, l2 := range sizes {
							mi++
							if !c.Mine(mi) {
								continue
							}
							c.Eval(1)
							c.DistinctByConstruction++
							k := c03Case{Start: -3, Live: []int{l0, l1, l2, mode}}
							if key, d := c03Live(k); key != "" {
								c.Violation("live/"+key, d, k)
							} else {
								c.Outcome("two-live-messages")
							}
						}
					}
				}
			}
			c.Res.States = c.Res.Evaluations
			c.Extra("depth", float64(depth))
			c.Extra("alphabet_size", float64(na))
			c.Extra("start_states", float64(len(c03Starts)))
			c.Sample(c03Case{Start: 5, Ops: []int{3, 17, 29}}.describe())
			c.Sample(hex.EncodeToString(c03Starts[7].Make().Raw))
		},
		Replay: func(c *Ctx, p json.RawMessage) {
			var k c03Case
			if err := json.Unmarshal(p, &k); err != nil {
				c.Fail("%v", err)
			}
			if k.Many != nil {
				if key, d := c03Many(k); key != "" {
					c.Violation("many/"+key, d, k)
				}
				return
			}
			if k.Live != nil {
				if key, d := c03Live(k); key != "" {
					c.Violation("live/"+key, d, k)
				}
				return
			}
			if k.Start < 0 {
				if key, d := c03AddSweep(k); key != "" {
					c.Violation("sweep/"+key, d, k)
				}
				return
			}
			if key, d := c03Run(k); key != "" {
				c.Violation(key, d, k)
			}
		},
	}
}
