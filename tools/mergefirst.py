#!/usr/bin/env python3
"""usage: tools/mergefirst.py  -- for every seeded/<id>/ that has both meta.first.json (the first run of the checks as
they stood when the seed arrived) and meta.json (the validation after strengthening): records the first run in
meta.json (first_run, initially_missed = no check caught it then) and removes meta.first.json."""
import json, glob, os
n = 0
for d in sorted(glob.glob("/verif/seeded/C??-?")):
    f, m = d + "/meta.first.json", d + "/meta.json"
    if not (os.path.exists(f) and os.path.exists(m)):
        continue
    first, meta = json.load(open(f)), json.load(open(m))
    fr = first.get("first_run") or {k: {"exit": v["exit"], "keys": v["keys"][:3]} for k, v in first.get("checks", {}).items()}
    meta["first_run"] = fr
    meta["initially_missed"] = not any(v["exit"] == 1 for v in fr.values())
    meta["initially_missed_by_own_check"] = fr.get(meta["property"], {}).get("exit") != 1
    json.dump(meta, open(m, "w"), indent=1)
    os.remove(f)
    n += 1
print("merged", n)
