#!/bin/bash
# re-checks every filed seed against the current checks, 4 properties at a time
cd /verif
run() { for id in "$@"; do python3 tools/recheck.py $id; done; }
run C01 C05 C09 C13 C17 > /tmp/recheck.1.log 2>&1 &
run C02 C06 C10 C14 C18 > /tmp/recheck.2.log 2>&1 &
run C03 C07 C11 C15 C19 > /tmp/recheck.3.log 2>&1 &
run C04 C08 C12 C16 C20 > /tmp/recheck.4.log 2>&1 &
wait
cat /tmp/recheck.[1-4].log | sort > /tmp/recheck.log
echo FINISHED >> /tmp/recheck.log
