#!/usr/bin/env python3
"""usage: tools/seedcheck.py <ID> <variant> [check-ids...]
Validates a seeded change produced by a sub-agent (/tmp/wt/<ID>-out/<variant>/) in the scratch worktree
/tmp/wt/<ID>: applies, builds, suite passes, demo fails with / passes without. Then applies it to /repo, runs the
listed checks (default: <ID>), reverts, and files everything under /verif/seeded/<ID>-<variant>/ with meta.json."""
import json, os, shutil, subprocess, sys, glob, re, time

ID, var = sys.argv[1], sys.argv[2]
checks = sys.argv[3:] or [ID]
ROOT = os.environ.get("SEED_ROOT", "/tmp/wt")
src = f"{ROOT}/{ID}-out/{var}"
wt = f"{ROOT}/{ID}"
env = dict(os.environ, GOFLAGS="-mod=mod", GOPROXY="off", GOSUMDB="off", GOTOOLCHAIN="local")

def sh(cmd, cwd=None, timeout=900):
    r = subprocess.run(cmd, shell=True, cwd=cwd, env=env, capture_output=True, text=True, timeout=timeout)
    return r.returncode, (r.stdout + r.stderr)

def clean():
    sh("git checkout -- . && git clean -fdq", wt)

meta = {"property": ID, "variant": var, "ran": []}
patch = f"{src}/patch.diff"
demos = [f for f in glob.glob(f"{src}/*_test.go")]
clean()
rc, out = sh(f"git apply --check {patch}", wt)
if rc: print("patch does not apply:", out); sys.exit(1)
# demo without the change
def place(d):
    # a demo named *hmac*_test.go belongs to package hmac
    sub = "internal/hmac/" if "hmac" in os.path.basename(d) else ""
    return f"{wt}/{sub}zz_{os.path.basename(d)}"
pkgs = ". ./internal/hmac" if any("hmac" in os.path.basename(d) for d in demos) else "."
if any("debug" in os.path.basename(d) for d in demos) or any("//go:build debug" in open(d).read() for d in demos):
    pkgs = "-tags debug " + pkgs
for d in demos: shutil.copy(d, place(d))
names = []
for d in demos:
    names += re.findall(r"func (Test\w+)\(", open(d).read())
runpat = "^(" + "|".join(names) + ")$"
rc0, out0 = sh(f"go test -vet=off -count=1 -run '{runpat}' {pkgs}", wt)
meta["ran"].append({"cmd": f"go test -run '{runpat}' . (unchanged tree)", "exit": rc0})
sh(f"git apply {patch}", wt)
rcb, outb = sh("go build ./...", wt)
for d in demos: os.remove(place(d))
rcs, outs = sh("go test -vet=off -count=1 -timeout 150s ./...", wt)
for _retry in range(2):
    if rcs and ("panic: test timed out" in outs):
        rcs, outs = sh("go test -vet=off -count=1 -timeout 150s ./...", wt)  # the suite has load-sensitive tests (TestClientGC, TestClient_Start)
meta["ran"].append({"cmd": "go test -vet=off -count=1 ./... (with change)", "exit": rcs})
for d in demos: shutil.copy(d, place(d))
rc1, out1 = sh(f"go test -vet=off -count=1 -run '{runpat}' {pkgs}", wt)
meta["ran"].append({"cmd": f"go test -run '{runpat}' . (with change)", "exit": rc1})
clean()
ok = (rc0 == 0 and rcb == 0 and rcs == 0 and rc1 != 0)
print(f"{ID}-{var}: demo-clean={'PASS' if rc0==0 else 'FAIL'} build={'ok' if rcb==0 else 'FAIL'} suite-with-change={'PASS' if rcs==0 else 'FAIL'} demo-with-change={'FAIL(as wanted)' if rc1!=0 else 'PASS(bad)'}")
if not ok:
    print((out0 if rc0 else "") + (outb if rcb else "") + (outs[-1500:] if rcs else "") )
    sys.exit(1)
# run the checks against the scratch worktree with the change applied (VERIF_REPO_DIR), /repo is not touched
sh(f"git apply {patch}", wt)
results = {}
env["VERIF_REPO_DIR"] = wt
try:
    for ck in checks:
        t = time.time()
        rc, out = sh(f"./bin/vcheck {ck} --tier quick", "/verif", timeout=3000)
        keys = re.findall(r"^  key=(\S+)", out, re.M)
        results[ck] = {"exit": rc, "keys": keys[:6], "wall_s": round(time.time() - t, 1)}
        print(f"  check {ck}: exit={rc} keys={keys[:4]}")
        if rc == 2:
            print("    " + out.strip().split("\n")[0][:300])
finally:
    del env["VERIF_REPO_DIR"]
    clean()
meta["checks"] = results
meta["caught_by"] = [k for k, v in results.items() if v["exit"] == 1]
notes = open(f"{src}/notes.md").read() if os.path.exists(f"{src}/notes.md") else ""
meta["needs_to_manifest"] = notes[:1500]
dst = f"/verif/seeded/{ID}-{var}"
os.makedirs(dst, exist_ok=True)
shutil.copy(patch, dst)
for d in demos: shutil.copy(d, f"{dst}/{os.path.basename(d)}.txt")
if notes: open(f"{dst}/notes.md", "w").write(notes)
json.dump(meta, open(f"{dst}/meta.json", "w"), indent=1)
