#!/usr/bin/env python3
"""usage: tools/recheck.py <ID> [variants...]
Regression re-check of filed seeds: applies /verif/seeded/<ID>-<v>/patch.diff in the scratch worktree /tmp/wt/<ID>
(at /repo's HEAD), runs the check of the seed's own property against it (VERIF_REPO_DIR), and writes
/verif/seeded/<ID>-<v>/recheck.json. A patch that no longer applies is reported, not repaired."""
import json, os, subprocess, sys, re, time

ID = sys.argv[1]
variants = sys.argv[2:] or list("abcdefghij")
wt = f"/tmp/wt/{ID}"
env = dict(os.environ, GOFLAGS="-mod=mod", GOPROXY="off", GOSUMDB="off", GOTOOLCHAIN="local")

def sh(cmd, cwd=None, timeout=3000, extra=None):
    e = dict(env)
    if extra: e.update(extra)
    r = subprocess.run(cmd, shell=True, cwd=cwd, env=e, capture_output=True, text=True, timeout=timeout)
    return r.returncode, (r.stdout + r.stderr)

head = sh("git -C /repo rev-parse --short HEAD")[1].strip()
if not os.path.isdir(wt):
    sh(f"git -C /repo worktree add -q --detach {wt} HEAD")
sh(f"git checkout -q -- . ; git clean -fdq; git checkout -q --detach {head}", wt)
for v in variants:
    d = f"/verif/seeded/{ID}-{v}"
    if not os.path.exists(f"{d}/patch.diff"):
        continue
    sh("git checkout -q -- . ; git clean -fdq", wt)
    rc, out = sh(f"git apply {d}/patch.diff", wt)
    how = "applies"
    if rc:
        sh("git checkout -q -- . ; git clean -fdq", wt)
        rc, out = sh(f"git apply --3way {d}/patch.diff", wt)
        how = "applies with 3-way merge"
        if rc or "<<<<<<<" in sh("git diff", wt)[1]:
            print(f"{ID}-{v}: patch does not apply at {head}")
            json.dump({"repo_head": head, "result": "patch does not apply"}, open(f"{d}/recheck.json", "w"), indent=1)
            sh("git checkout -q -- . ; git reset -q --hard; git clean -fdq", wt)
            continue
        sh("git reset -q", wt)
    rcb, outb = sh("go build ./...", wt)
    if rcb:
        print(f"{ID}-{v}: does not build at {head}")
        json.dump({"repo_head": head, "result": "does not build"}, open(f"{d}/recheck.json", "w"), indent=1)
        continue
    t = time.time()
    rc, out = sh(f"./bin/vcheck {ID} --tier quick", "/verif", extra={"VERIF_REPO_DIR": wt})
    keys = re.findall(r"^  key=(\S+)", out, re.M)
    print(f"{ID}-{v}: {how}; check {ID} exit={rc} keys={keys[:3]}")
    if rc == 2:
        print("    " + out.strip().split("\n")[0][:300])
    json.dump({"repo_head": head, "patch": how, "check": ID, "exit": rc, "keys": keys[:6], "wall_s": round(time.time() - t, 1)}, open(f"{d}/recheck.json", "w"), indent=1)
sh("git checkout -q -- . ; git clean -fdq", wt)
