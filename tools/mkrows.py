#!/usr/bin/env python3
# prints DESIGN 9.6 rows for the given variants from seeded/*/meta.json and the why dicts
import json,sys,glob,os
why={}
for f in ('/verif/tools/why6.py','/verif/tools/why7.py','/verif/tools/why8.py','/verif/tools/why9.py','/verif/tools/why10.py'):
    g={}; exec(open(f).read(),g); why.update(g['why'])
vs=sys.argv[1:]
for d in sorted(glob.glob('/verif/seeded/C??-?')):
    name=os.path.basename(d)
    if name[-1] not in vs: continue
    mp=d+'/meta.json'
    if not os.path.exists(mp):
        print(f"| {name} | (not validated) | |"); continue
    m=json.load(open(mp))
    own=name[:3]
    cb=m.get('caught_by',[])
    cb=sorted(cb,key=lambda k:(k!=own,k))
    cell=", ".join(f"{k}: {m['checks'][k]['keys'][0] if m['checks'][k]['keys'] else '?'}" for k in cb) or "(none)"
    w=why.get(name,'')
    if not w and not m.get('initially_missed',False): w='caught by the check as it stood before this round'
    w=w.replace("||","\\|\\|"); cell=cell.replace("|","\\|")
    print(f"| {name} | {cell} | {w} |")
