#!/bin/bash
# usage: tools/mutcheck.sh <prop[,prop]> <file-in-repo> <sed-expression> [notest]
# Applies a one-line mutation to /repo, optionally runs the pinned tests, runs the checks, reverts.
props=$1; file=$2; expr=$3
cd /repo || exit 2
git diff --quiet || { echo "/repo dirty"; exit 2; }
sed -i "$expr" "$file"
if git diff --quiet; then echo "mutation did not change anything"; exit 2; fi
git --no-pager diff -U0 | grep '^[+-]' | grep -v '^+++\|^---'
if [ "$4" != "notest" ]; then
  (export GOFLAGS=-mod=mod GOPROXY=off GOSUMDB=off GOTOOLCHAIN=local; go test -vet=off -count=1 ./... 2>&1 | tail -3)
fi
cd /verif
for p in ${props//,/ }; do ./bin/vcheck $p --tier ${TIER:-quick} 2>&1 | grep -v '^  ' | tail -4; echo "exit=${PIPESTATUS[0]}"; done
git -C /repo checkout -- .
