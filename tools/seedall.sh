#!/bin/bash
# runs seedcheck for every delivered seed that is not filed yet
cd /verif
declare -A rel=( [C01]="C01 C02" [C02]="C02 C01" [C03]="C03 C08 C09" [C04]="C04 C07" [C05]="C05 C07 C01 C08" [C06]="C06 C07" [C07]="C07 C04" [C08]="C08 C03 C01" [C09]="C09 C03" [C10]="C10 C15 C12" [C11]="C11 C13" [C12]="C12 C10 C15" [C13]="C13 C14" [C14]="C14 C13" [C15]="C15 C10" [C16]="C16" [C17]="C17 C16" [C18]="C18 C04" [C19]="C19 C02" [C20]="C20" )
for id in "$@"; do
  for v in a b c d e f g h i j k l m n o p q r s t u v w x; do
    [ -f ${SEED_ROOT:-/tmp/wt}/$id-out/$v/patch.diff ] || continue
    [ -f /verif/seeded/$id-$v/meta.json ] && continue
    python3 tools/seedcheck.py $id $v ${rel[$id]}
  done
done
