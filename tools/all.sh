#!/bin/bash
# usage: tools/all.sh quick|thorough  -- runs every check, prints one line each
tier=${1:-quick}
bash ./setup.sh >/dev/null 2>&1
bad=0
for id in C01 C02 C03 C04 C05 C06 C07 C08 C09 C10 C11 C12 C13 C14 C15 C16 C17 C18 C19 C20; do
  s=$(date +%s)
  out=$(./bin/vcheck $id --tier $tier 2>&1); rc=$?
  echo "$id rc=$rc $(( $(date +%s) - s ))s :: $(echo "$out" | tail -1 | cut -c1-220)"
  if [ $rc -ne 0 ]; then bad=1; echo "$out" | head -20; fi
done
exit $bad
