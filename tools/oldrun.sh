#!/bin/bash
# runs the checks as they stood BEFORE round 4 (commit fdeaaad) against the round-4 seeds
export GOFLAGS=-mod=mod GOPROXY=off GOSUMDB=off GOTOOLCHAIN=local
for p in $(seq -w 1 20); do
  id=C$p
  for v in g h; do
    pd=/verif/seeded/$id-$v/patch.diff
    [ -f $pd ] || continue
    cd /tmp/wt/$id || continue
    git checkout -q -- . ; git clean -fdq
    git apply $pd || { echo "$id-$v apply-failed"; continue; }
    out=$(cd /tmp/verif-old && VERIF_REPO_DIR=/tmp/wt/$id timeout 1500 ./bin/vcheck $id --tier quick 2>&1)
    rc=$?
    key=$(echo "$out" | grep -m1 "^  key=" | cut -c1-80)
    echo "$id-$v old-check-exit=$rc $key"
    git checkout -q -- . ; git clean -fdq
  done
done
echo FINISHED
